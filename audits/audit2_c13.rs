// Second audit of the BED / GFF write-read property (C13).
// Exploration tests print a summary (run with --nocapture); `finding_*` tests
// assert the violating behaviour that was observed (they PASS when the
// violation is present).
use bio::io::{bed, gff};
use gff::GffType;
use multimap::MultiMap;
use std::collections::BTreeMap;
use std::io::Read;
use std::panic::{catch_unwind, AssertUnwindSafe};

// ---------------------------------------------------------------- rng
struct Rng(u64);
impl Rng {
    fn new(s: u64) -> Self {
        Rng(s.wrapping_mul(0x9E3779B97F4A7C15) | 1)
    }
    fn next(&mut self) -> u64 {
        let mut x = self.0;
        x ^= x >> 12;
        x ^= x << 25;
        x ^= x >> 27;
        self.0 = x;
        x.wrapping_mul(0x2545F4914F6CDD1D)
    }
    fn below(&mut self, n: usize) -> usize {
        (self.next() % n as u64) as usize
    }
    fn range(&mut self, lo: usize, hi: usize) -> usize {
        lo + self.below(hi - lo + 1)
    }
    fn pick<'a, T>(&mut self, v: &'a [T]) -> &'a T {
        &v[self.below(v.len())]
    }
}

const DIALECTS: [GffType; 3] = [GffType::GFF3, GffType::GFF2, GffType::GTF2];
const NON_ASCII: [char; 8] = ['é', 'ß', '日', '\u{a0}', '\u{2028}', '😀', '\u{85}', '\u{feff}'];
const REGEX_SPECIAL: &str = "\\([*+?|^$.{}])-/&~#@!%:<>`_";

fn alphabet(ty: GffType) -> Vec<char> {
    let mut v: Vec<char> = (0x20u8..0x7f).map(|b| b as char).collect();
    v.extend(NON_ASCII.iter());
    let forbidden: &[char] = match ty {
        GffType::GFF3 => &['=', ';', ',', '"', '\''],
        _ => &[' ', ';', '"', '\''],
    };
    v.retain(|c| !forbidden.contains(c));
    v
}

fn rand_token(rng: &mut Rng, alpha: &[char], special: &[char], is_key: bool, ty: GffType) -> String {
    let mode = rng.below(10);
    let len = match mode {
        0 => 1,
        1 => rng.range(1, 2),
        _ => rng.range(1, 12),
    };
    let mut s = String::new();
    for _ in 0..len {
        let c = if mode >= 6 && !special.is_empty() {
            *rng.pick(special)
        } else {
            *rng.pick(alpha)
        };
        s.push(c);
    }
    if ty == GffType::GFF3 {
        // trailing / inner blanks are inside the domain for GFF3
        if rng.below(6) == 0 {
            s.push(' ');
        }
        if is_key {
            while s.starts_with(' ') {
                s.remove(0);
            }
            if s.is_empty() {
                s.push('k');
            }
        }
    }
    s
}

fn rand_attrs(rng: &mut Rng, ty: GffType, alpha: &[char], special: &[char]) -> MultiMap<String, String> {
    let mut m = MultiMap::new();
    let nkeys = rng.range(1, 6);
    let mut keys: Vec<String> = vec![];
    while keys.len() < nkeys {
        let k = if !keys.is_empty() && rng.below(4) == 0 {
            // prefix / suffix / extension of an existing key
            let base = keys[rng.below(keys.len())].clone();
            let cs: Vec<char> = base.chars().collect();
            match rng.below(4) {
                0 if cs.len() > 1 => cs[..cs.len() - 1].iter().collect(),
                1 if cs.len() > 1 => cs[1..].iter().collect(),
                2 => format!("{}{}", base, rng.pick(alpha)),
                _ => format!("{}{}", rng.pick(alpha), base),
            }
        } else {
            rand_token(rng, alpha, special, true, ty)
        };
        let k = if ty == GffType::GFF3 {
            let t = k.trim_start_matches(' ').to_owned();
            if t.is_empty() {
                "k".to_owned()
            } else {
                t
            }
        } else {
            k
        };
        if !keys.contains(&k) {
            keys.push(k);
        }
    }
    for k in keys {
        let nv = rng.range(1, 5);
        for _ in 0..nv {
            let v = match rng.below(400) {
                0 => {
                    // very long value (10 KB)
                    let mut s = String::new();
                    while s.len() < 10 * 1024 {
                        s.push(*rng.pick(alpha));
                    }
                    s
                }
                1..=20 => {
                    // value equal to / resembling a key
                    k.clone()
                }
                _ => rand_token(rng, alpha, special, false, ty),
            };
            m.insert(k.clone(), v);
        }
    }
    m
}

fn gff_rec(seq: &str, src: &str, ft: &str, s: u64, e: u64, score: &str, strand: &str, phase: Option<u8>, attrs: MultiMap<String, String>) -> gff::Record {
    let mut r = gff::Record::new();
    *r.seqname_mut() = seq.to_owned();
    *r.source_mut() = src.to_owned();
    *r.feature_type_mut() = ft.to_owned();
    *r.start_mut() = s;
    *r.end_mut() = e;
    *r.score_mut() = score.to_owned();
    *r.strand_mut() = strand.to_owned();
    *r.phase_mut() = gff::Phase::from(phase);
    *r.attributes_mut() = attrs;
    r
}

fn gff_write(recs: &[gff::Record], ty: GffType) -> Vec<u8> {
    let mut buf = Vec::new();
    {
        let mut w = gff::Writer::new(&mut buf, ty);
        for r in recs {
            w.write(r).expect("gff write");
        }
    }
    buf
}

type Items<T> = Result<Vec<Result<T, String>>, String>;

fn gff_read<R: Read>(rd: R, ty: GffType) -> Items<gff::Record> {
    catch_unwind(AssertUnwindSafe(|| {
        let mut reader = gff::Reader::new(rd, ty);
        reader.records().map(|r| r.map_err(|e| e.to_string())).collect::<Vec<_>>()
    }))
    .map_err(|_| "PANIC".to_owned())
}

fn bed_rec(chrom: &str, s: u64, e: u64, aux: &[String]) -> bed::Record {
    let mut r = bed::Record::new();
    r.set_chrom(chrom);
    r.set_start(s);
    r.set_end(e);
    for a in aux {
        r.push_aux(a);
    }
    r
}

fn bed_write(recs: &[bed::Record]) -> Vec<u8> {
    let mut buf = Vec::new();
    {
        let mut w = bed::Writer::new(&mut buf);
        for r in recs {
            w.write(r).expect("bed write");
        }
    }
    buf
}

fn bed_read<R: Read>(rd: R) -> Items<bed::Record> {
    catch_unwind(AssertUnwindSafe(|| {
        let mut reader = bed::Reader::new(rd);
        reader.records().map(|r| r.map_err(|e| e.to_string())).collect::<Vec<_>>()
    }))
    .map_err(|_| "PANIC".to_owned())
}

struct Report {
    name: String,
    cases: usize,
    bad: BTreeMap<String, (usize, Vec<String>)>,
}
impl Report {
    fn new(name: &str) -> Self {
        Report { name: name.to_owned(), cases: 0, bad: BTreeMap::new() }
    }
    fn fail(&mut self, cat: &str, detail: String) {
        let e = self.bad.entry(cat.to_owned()).or_insert((0, vec![]));
        e.0 += 1;
        if e.1.len() < 4 {
            let mut d = detail;
            if d.len() > 400 {
                let mut cut = 400;
                while !d.is_char_boundary(cut) {
                    cut -= 1;
                }
                d.truncate(cut);
                d.push_str("...");
            }
            e.1.push(d);
        }
    }
    fn print(&self) -> usize {
        println!("== {}: {} cases", self.name, self.cases);
        let mut n = 0;
        for (cat, (cnt, ex)) in &self.bad {
            println!("   ANOMALY [{}] x{}", cat, cnt);
            for e in ex {
                println!("      {}", e);
            }
            n += cnt;
        }
        if n == 0 {
            println!("   no anomaly");
        }
        n
    }
}

// ---------------------------------------------------------------- 1. attributes
#[test]
fn t1_attr_roundtrip_random() {
    let special: Vec<char> = REGEX_SPECIAL.chars().collect();
    for (di, ty) in DIALECTS.iter().enumerate() {
        let alpha = alphabet(*ty);
        let special: Vec<char> = special.iter().cloned().filter(|c| alpha.contains(c)).collect();
        let mut rep = Report::new(&format!("attr roundtrip {:?}", ty));
        let mut rng = Rng::new(1000 + di as u64);
        let total = 40_000;
        let mut done = 0;
        while done < total {
            // files of 1..4 records
            let n = rng.range(1, 4);
            let recs: Vec<gff::Record> = (0..n)
                .map(|i| {
                    let a = rand_attrs(&mut rng, *ty, &alpha, &special);
                    gff_rec("chr1", "src", "gene", i as u64, 10 + i as u64, ".", "+", Some((i % 3) as u8), a)
                })
                .collect();
            done += n;
            rep.cases += n;
            let bytes = gff_write(&recs, *ty);
            match gff_read(&bytes[..], *ty) {
                Err(_) => rep.fail("panic", format!("{:?}", String::from_utf8_lossy(&bytes))),
                Ok(items) => {
                    if items.len() != recs.len() {
                        rep.fail("count", format!("{} vs {} file={:?}", items.len(), recs.len(), String::from_utf8_lossy(&bytes)));
                        continue;
                    }
                    for (it, orig) in items.iter().zip(&recs) {
                        match it {
                            Err(e) => rep.fail("err", format!("{} file={:?}", e, String::from_utf8_lossy(&bytes))),
                            Ok(r) => {
                                let a = r.attributes();
                                let o = orig.attributes();
                                let mut same = a.len() == o.len();
                                for (k, vs) in o.iter_all() {
                                    if a.get_vec(k) != Some(vs) {
                                        same = false;
                                        rep.fail("attr-mismatch", format!("key={:?} wrote={:?} read={:?}", k, vs, a.get_vec(k)));
                                    }
                                }
                                if !same || r != orig {
                                    rep.fail("record-mismatch", format!("wrote={:?} read={:?}", orig, r));
                                }
                            }
                        }
                    }
                }
            }
        }
        let n = rep.print();
        assert_eq!(n, 0, "attribute anomalies for {:?}", ty);
    }
}

// every single allowed character as key, as value, as 1st/last char, per dialect
#[test]
fn t1_attr_each_char_each_position() {
    for ty in DIALECTS.iter() {
        let alpha = alphabet(*ty);
        let mut rep = Report::new(&format!("attr per-char {:?}", ty));
        for &c in &alpha {
            let mut forms = vec![format!("{}", c), format!("a{}", c), format!("a{}b", c), format!("{}{}", c, c)];
            if !(c == ' ') {
                forms.push(format!("{}b", c));
            }
            for kf in &forms {
                for vf in &forms {
                    if *ty == GffType::GFF3 && kf.starts_with(' ') {
                        continue;
                    }
                    let mut m = MultiMap::new();
                    m.insert(kf.clone(), vf.clone());
                    m.insert(kf.clone(), "second".to_owned());
                    m.insert(kf.clone(), vf.clone());
                    m.insert("zz".to_owned(), vf.clone());
                    let rec = gff_rec("c", "s", "t", 1, 2, ".", ".", None, m);
                    let bytes = gff_write(&[rec.clone()], *ty);
                    rep.cases += 1;
                    match gff_read(&bytes[..], *ty) {
                        Ok(items) if items.len() == 1 && items[0].as_ref().ok() == Some(&rec) => {}
                        other => rep.fail("mismatch", format!("char={:?} key={:?} val={:?} got={:?}", c, kf, vf, other)),
                    }
                }
            }
        }
        let n = rep.print();
        assert_eq!(n, 0);
    }
}

// ---------------------------------------------------------------- 2. fixed columns
fn rand_text(rng: &mut Rng) -> String {
    const POOL: &[&str] = &[
        " ", ",", "\"", "'", "\r", "\t", "\n", "\r\n", "#", ".", "+", "-", "0", "é", "日", "😀", "\u{feff}", "\u{a0}", "\\", "a", "B", "chr", ";", "=", "\u{0}",
    ];
    let n = match rng.below(8) {
        0 => 0,
        1 => 1,
        _ => rng.range(1, 6),
    };
    let mut s = String::new();
    for _ in 0..n {
        if rng.below(3) == 0 {
            s.push((0x20 + rng.below(0x5f) as u8) as char);
        } else {
            let p: &str = *rng.pick(POOL); s.push_str(p);
        }
    }
    s
}

fn rand_coord(rng: &mut Rng) -> u64 {
    match rng.below(8) {
        0 => 0,
        1 => 1u64 << 63,
        2 => u64::MAX,
        3 => u64::MAX - 1,
        4 => (1u64 << 63) - 1,
        5 => u32::MAX as u64 + 1,
        _ => rng.next() >> rng.below(64),
    }
}

#[test]
fn t2_gff_fixed_columns_arbitrary_strings() {
    for (di, ty) in DIALECTS.iter().enumerate() {
        let mut rep = Report::new(&format!("gff fixed columns {:?}", ty));
        let mut rng = Rng::new(77 + di as u64);
        for _ in 0..15_000 {
            let n = rng.range(1, 3);
            let recs: Vec<gff::Record> = (0..n)
                .map(|_| {
                    let mut seq = rand_text(&mut rng);
                    while seq.starts_with('#') {
                        seq.remove(0); // known: first column starting with '#'
                    }
                    let mut a = MultiMap::new();
                    if rng.below(3) > 0 {
                        a.insert("ID".to_owned(), "x1".to_owned());
                    }
                    let ph = match rng.below(4) {
                        0 => None,
                        p => Some(p as u8 - 1),
                    };
                    gff_rec(&seq, &rand_text(&mut rng), &rand_text(&mut rng), rand_coord(&mut rng), rand_coord(&mut rng), &rand_text(&mut rng), &rand_text(&mut rng), ph, a)
                })
                .collect();
            rep.cases += n;
            let bytes = gff_write(&recs, *ty);
            match gff_read(&bytes[..], *ty) {
                Err(_) => rep.fail("panic", format!("{:?}", String::from_utf8_lossy(&bytes))),
                Ok(items) => {
                    let got: Vec<Option<&gff::Record>> = items.iter().map(|i| i.as_ref().ok()).collect();
                    let want: Vec<Option<&gff::Record>> = recs.iter().map(Some).collect();
                    if got != want {
                        let cat = if recs[0].seqname().starts_with('\u{feff}') { "BOM-first-field" } else { "mismatch" };
                        rep.fail(cat, format!("wrote={:?} file={:?} read={:?}", recs, String::from_utf8_lossy(&bytes), items));
                    }
                }
            }
        }
        rep.print();
    }
}

#[test]
fn t2_bed_columns_arbitrary_strings() {
    let mut rep = Report::new("bed columns");
    let mut rng = Rng::new(4242);
    for _ in 0..40_000 {
        let k = rng.below(10);
        let n = rng.range(1, 4);
        let recs: Vec<bed::Record> = (0..n)
            .map(|_| {
                let mut chrom = rand_text(&mut rng);
                while chrom.starts_with('#') {
                    chrom.remove(0);
                }
                let aux: Vec<String> = (0..k).map(|_| rand_text(&mut rng)).collect();
                bed_rec(&chrom, rand_coord(&mut rng), rand_coord(&mut rng), &aux)
            })
            .collect();
        rep.cases += n;
        let bytes = bed_write(&recs);
        match bed_read(&bytes[..]) {
            Err(_) => rep.fail("panic", format!("{:?}", String::from_utf8_lossy(&bytes))),
            Ok(items) => {
                let got: Vec<Option<&bed::Record>> = items.iter().map(|i| i.as_ref().ok()).collect();
                let want: Vec<Option<&bed::Record>> = recs.iter().map(Some).collect();
                if got != want {
                    let cat = if recs[0].chrom().starts_with('\u{feff}') { "BOM-first-field" } else { "mismatch" };
                    rep.fail(cat, format!("k={} wrote={:?} file={:?} read={:?}", k, recs, String::from_utf8_lossy(&bytes), items));
                }
            }
        }
    }
    rep.print();
}

// ---------------------------------------------------------------- 3. malformed lines
fn domain_gff_records(rng: &mut Rng, ty: GffType, n: usize) -> Vec<gff::Record> {
    let alpha = alphabet(ty);
    (0..n)
        .map(|i| {
            let a = rand_attrs(rng, ty, &alpha, &[]);
            let a = {
                // keep values short here
                let mut m = MultiMap::new();
                for (k, vs) in a.iter_all() {
                    for v in vs {
                        if v.len() < 100 {
                            m.insert(k.clone(), v.clone());
                        } else {
                            m.insert(k.clone(), "long".to_owned());
                        }
                    }
                }
                m
            };
            gff_rec(&format!("chr{}", i), "src", "exon", 100 + i as u64, 200 + i as u64, if i % 2 == 0 { "." } else { "37" }, ["+", "-", "."][i % 3], [None, Some(0), Some(1), Some(2)][i % 4], a)
        })
        .collect()
}

fn split_lines(bytes: &[u8]) -> Vec<Vec<u8>> {
    // files here contain no quoted line breaks
    bytes.split(|b| *b == b'\n').filter(|l| !l.is_empty()).map(|l| l.to_vec()).collect()
}

fn join_lines(lines: &[Vec<u8>], trailing_nl: bool) -> Vec<u8> {
    let mut out = lines.join(&b'\n');
    if trailing_nl {
        out.push(b'\n');
    }
    out
}

fn mutate_col(line: &[u8], col: usize, new: &[u8]) -> Vec<u8> {
    let mut cols: Vec<Vec<u8>> = line.split(|b| *b == b'\t').map(|c| c.to_vec()).collect();
    cols[col] = new.to_vec();
    cols.join(&b'\t')
}

const BAD_NUM: &[&str] = &["", "abc", "-5", "-0", "1.5", "1e3", "18446744073709551616", "99999999999999999999999999", " 5", "5 ", "5x", "NaN", "１２", "0x", "--1", "1_000"];
const BAD_PHASE: &[&str] = &["3", "9", "255", "256", "-1", "1.0", "", "x", "..", " .", ". ", "00000000003", "-0", "2 ", "２"];

#[test]
fn t3_gff_malformed_middle_and_end() {
    for (di, ty) in DIALECTS.iter().enumerate() {
        let mut rep = Report::new(&format!("gff malformed {:?}", ty));
        let mut rng = Rng::new(900 + di as u64);
        for _round in 0..30 {
            let recs = domain_gff_records(&mut rng, *ty, 5);
            let bytes = gff_write(&recs, *ty);
            let lines = split_lines(&bytes);
            assert_eq!(lines.len(), 5);
            for &target in &[0usize, 2, 4] {
                let mut muts: Vec<(String, Vec<u8>)> = vec![];
                for col in [3usize, 4] {
                    for b in BAD_NUM {
                        muts.push((format!("col{}={:?}", col, b), mutate_col(&lines[target], col, b.as_bytes())));
                    }
                }
                for b in BAD_PHASE {
                    muts.push((format!("phase={:?}", b), mutate_col(&lines[target], 7, b.as_bytes())));
                }
                // one tab removed
                let tabs: Vec<usize> = lines[target].iter().enumerate().filter(|(_, b)| **b == b'\t').map(|(i, _)| i).collect();
                for &t in &tabs {
                    let mut l = lines[target].clone();
                    l.remove(t);
                    muts.push((format!("tab#{} removed", t), l));
                }
                // one column added
                for &t in &tabs {
                    let mut l = lines[target].clone();
                    l.insert(t, b'\t');
                    muts.push((format!("empty column inserted at {}", t), l));
                }
                let mut l = lines[target].clone();
                l.extend_from_slice(b"\textra");
                muts.push(("column appended".to_owned(), l));
                let mut l = b"extra\t".to_vec();
                l.extend_from_slice(&lines[target]);
                muts.push(("column prepended".to_owned(), l));

                for (what, newline) in muts {
                    for &nl in &[true, false] {
                        let mut ls = lines.clone();
                        ls[target] = newline.clone();
                        let file = join_lines(&ls, nl);
                        rep.cases += 1;
                        match gff_read(&file[..], *ty) {
                            Err(_) => rep.fail("panic", format!("{} target={} file={:?}", what, target, String::from_utf8_lossy(&file))),
                            Ok(items) => {
                                if items.len() != 5 {
                                    rep.fail("count", format!("{} target={} n={}", what, target, items.len()));
                                    continue;
                                }
                                for (i, it) in items.iter().enumerate() {
                                    if i == target {
                                        if let Ok(r) = it {
                                            rep.fail(&format!("accepted: {}", what.split('=').next().unwrap()), format!("{} line={:?} -> {:?}", what, String::from_utf8_lossy(&newline), r));
                                        }
                                    } else if it.as_ref().ok() != Some(&recs[i]) {
                                        rep.fail("other-record-affected", format!("{} target={} i={} got={:?}", what, target, i, it));
                                    }
                                }
                            }
                        }
                    }
                }
            }
        }
        rep.print();
    }
}

fn domain_bed_records(rng: &mut Rng, k: usize, n: usize) -> Vec<bed::Record> {
    (0..n)
        .map(|i| {
            let aux: Vec<String> = (0..k)
                .map(|j| match j {
                    0 => format!("name{}", rng.below(1000)),
                    1 => format!("{}", rng.below(1000)),
                    2 => ["+", "-", "."][rng.below(3)].to_owned(),
                    _ => format!("{}", rng.below(100000)),
                })
                .collect();
            bed_rec(&format!("chr{}", i + 1), rng.below(100000) as u64, 100000 + rng.below(100000) as u64, &aux)
        })
        .collect()
}

#[test]
fn t3_bed_malformed_middle_and_end() {
    let mut rep = Report::new("bed malformed");
    let mut rng = Rng::new(31337);
    for &k in &[0usize, 1, 2, 3, 6, 9] {
        for _round in 0..10 {
            let recs = domain_bed_records(&mut rng, k, 5);
            let bytes = bed_write(&recs);
            let lines = split_lines(&bytes);
            assert_eq!(lines.len(), 5);
            for &target in &[2usize, 4] {
                let mut muts: Vec<(String, Vec<u8>)> = vec![];
                for col in [1usize, 2] {
                    for b in BAD_NUM {
                        muts.push((format!("col{}={:?}", col, b), mutate_col(&lines[target], col, b.as_bytes())));
                    }
                }
                let tabs: Vec<usize> = lines[target].iter().enumerate().filter(|(_, b)| **b == b'\t').map(|(i, _)| i).collect();
                for &t in &tabs {
                    let mut l = lines[target].clone();
                    l.remove(t);
                    muts.push((format!("tab#{} removed", t), l));
                    let mut l = lines[target].clone();
                    l.insert(t, b'\t');
                    muts.push((format!("empty column inserted at {}", t), l));
                }
                let mut l = lines[target].clone();
                l.extend_from_slice(b"\textra");
                muts.push(("column appended".to_owned(), l));
                let mut l = lines[target].clone();
                l.push(b'\t');
                muts.push(("empty column appended".to_owned(), l));
                for (what, newline) in muts {
                    for &nl in &[true, false] {
                        let mut ls = lines.clone();
                        ls[target] = newline.clone();
                        let file = join_lines(&ls, nl);
                        rep.cases += 1;
                        match bed_read(&file[..]) {
                            Err(_) => rep.fail("panic", format!("{} file={:?}", what, String::from_utf8_lossy(&file))),
                            Ok(items) => {
                                if items.len() != 5 {
                                    rep.fail("count", format!("{} target={} n={}", what, target, items.len()));
                                    continue;
                                }
                                for (i, it) in items.iter().enumerate() {
                                    if i == target {
                                        if let Ok(r) = it {
                                            rep.fail(&format!("accepted k={}: {}", k, what.split('=').next().unwrap()), format!("{} line={:?} -> {:?}", what, String::from_utf8_lossy(&newline), r));
                                        }
                                    } else if it.as_ref().ok() != Some(&recs[i]) {
                                        rep.fail("other-record-affected", format!("{} target={} i={} got={:?}", what, target, i, it));
                                    }
                                }
                            }
                        }
                    }
                }
            }
        }
    }
    rep.print();
}

#[test]
fn t3_truncation_every_cut() {
    let mut rep = Report::new("truncation at every byte");
    let mut rng = Rng::new(5150);
    for ty in DIALECTS.iter() {
        for _ in 0..5 {
            let recs = domain_gff_records(&mut rng, *ty, 4);
            let bytes = gff_write(&recs, *ty);
            let line_ends: Vec<usize> = bytes.iter().enumerate().filter(|(_, b)| **b == b'\n').map(|(i, _)| i + 1).collect();
            for cut in 0..=bytes.len() {
                rep.cases += 1;
                let complete = line_ends.iter().filter(|e| **e <= cut).count();
                match gff_read(&bytes[..cut], *ty) {
                    Err(_) => rep.fail("gff panic", format!("cut={}", cut)),
                    Ok(items) => {
                        if items.len() < complete || items.len() > complete + 1 {
                            rep.fail("gff count", format!("cut={} items={} complete={}", cut, items.len(), complete));
                            continue;
                        }
                        for i in 0..complete {
                            if items[i].as_ref().ok() != Some(&recs[i]) {
                                rep.fail("gff complete record changed", format!("cut={} i={}", cut, i));
                            }
                        }
                    }
                }
            }
        }
    }
    for &k in &[0usize, 1, 3, 9] {
        for _ in 0..5 {
            let recs = domain_bed_records(&mut rng, k, 4);
            let bytes = bed_write(&recs);
            let line_ends: Vec<usize> = bytes.iter().enumerate().filter(|(_, b)| **b == b'\n').map(|(i, _)| i + 1).collect();
            for cut in 0..=bytes.len() {
                rep.cases += 1;
                let complete = line_ends.iter().filter(|e| **e <= cut).count();
                match bed_read(&bytes[..cut]) {
                    Err(_) => rep.fail("bed panic", format!("cut={}", cut)),
                    Ok(items) => {
                        if items.len() < complete || items.len() > complete + 1 {
                            rep.fail("bed count", format!("cut={} items={} complete={}", cut, items.len(), complete));
                            continue;
                        }
                        for i in 0..complete {
                            if items[i].as_ref().ok() != Some(&recs[i]) {
                                rep.fail("bed complete record changed", format!("k={} cut={} i={}", k, cut, i));
                            }
                        }
                    }
                }
            }
        }
    }
    let n = rep.print();
    assert_eq!(n, 0);
}

// single byte substitution at every position of records 2..n (first line excluded for BED: known)
#[test]
fn t3_single_byte_substitution() {
    let subs: &[u8] = &[b'"', b'\r', b'\n', b'\t', 0x00, 0xff, b'-', b'x', b' ', b';', b'='];
    let mut rng = Rng::new(60606);
    for ty in DIALECTS.iter() {
        let mut rep = Report::new(&format!("gff single byte substitution {:?}", ty));
        for _ in 0..3 {
            let recs = domain_gff_records(&mut rng, *ty, 5);
            let bytes = gff_write(&recs, *ty);
            let line_ends: Vec<usize> = bytes.iter().enumerate().filter(|(_, b)| **b == b'\n').map(|(i, _)| i + 1).collect();
            for pos in 0..bytes.len() {
                if bytes[pos] == b'\n' {
                    continue;
                }
                let line = line_ends.iter().filter(|e| **e <= pos).count();
                let line_start = if line == 0 { 0 } else { line_ends[line - 1] };
                for &s in subs {
                    if s == bytes[pos] || (s == b'#' && pos == line_start) {
                        continue;
                    }
                    let mut f = bytes.clone();
                    f[pos] = s;
                    rep.cases += 1;
                    match gff_read(&f[..], *ty) {
                        Err(_) => rep.fail("panic", format!("pos={} sub={:?}", pos, s as char)),
                        Ok(items) => {
                            // every undamaged record must still be there, in order
                            let oks: Vec<&gff::Record> = items.iter().filter_map(|i| i.as_ref().ok()).collect();
                            let mut missing = vec![];
                            for (i, r) in recs.iter().enumerate() {
                                if i != line && !oks.contains(&r) {
                                    missing.push(i);
                                }
                            }
                            if !missing.is_empty() {
                                let nerr = items.iter().filter(|i| i.is_err()).count();
                                let col = f[line_start..pos].iter().filter(|b| **b == b'\t').count();
                                rep.fail(
                                    &format!("undamaged records lost, sub={:?}, errors reported={}", s as char, nerr),
                                    format!("damaged line={} col={} missing={:?} items={} (Ok {})", line, col, missing, items.len(), oks.len()),
                                );
                            }
                        }
                    }
                }
            }
        }
        rep.print();
    }
    let mut rep = Report::new("bed single byte substitution");
    for &k in &[0usize, 1, 3, 9] {
        for _ in 0..3 {
            let recs = domain_bed_records(&mut rng, k, 5);
            let bytes = bed_write(&recs);
            let line_ends: Vec<usize> = bytes.iter().enumerate().filter(|(_, b)| **b == b'\n').map(|(i, _)| i + 1).collect();
            for pos in line_ends[0]..bytes.len() {
                if bytes[pos] == b'\n' {
                    continue;
                }
                let line = line_ends.iter().filter(|e| **e <= pos).count();
                let line_start = line_ends[line - 1];
                for &s in subs {
                    if s == bytes[pos] {
                        continue;
                    }
                    let mut f = bytes.clone();
                    f[pos] = s;
                    rep.cases += 1;
                    match bed_read(&f[..]) {
                        Err(_) => rep.fail("panic", format!("pos={} sub={:?}", pos, s as char)),
                        Ok(items) => {
                            let oks: Vec<&bed::Record> = items.iter().filter_map(|i| i.as_ref().ok()).collect();
                            let mut missing = vec![];
                            for (i, r) in recs.iter().enumerate() {
                                if i != line && !oks.contains(&r) {
                                    missing.push(i);
                                }
                            }
                            if !missing.is_empty() {
                                let nerr = items.iter().filter(|i| i.is_err()).count();
                                let col = f[line_start..pos].iter().filter(|b| **b == b'\t').count();
                                rep.fail(
                                    &format!("undamaged records lost, k={} sub={:?}, errors reported={}", k, s as char, nerr),
                                    format!("damaged line={} col={} missing={:?} items={} (Ok {})", line, col, missing, items.len(), oks.len()),
                                );
                            }
                        }
                    }
                }
            }
        }
    }
    rep.print();
}

// ---------------------------------------------------------------- 4. comments, blank lines, slow reader
struct Slow<'a> {
    data: &'a [u8],
    pos: usize,
    rng: Rng,
}
impl<'a> Read for Slow<'a> {
    fn read(&mut self, buf: &mut [u8]) -> std::io::Result<usize> {
        let n = self.rng.range(1, 7).min(buf.len()).min(self.data.len() - self.pos);
        buf[..n].copy_from_slice(&self.data[self.pos..self.pos + n]);
        self.pos += n;
        Ok(n)
    }
}

const COMMENTS: &[&str] = &[
    "#", "##gff-version 3", "# a\tb\tc\td\te\tf\tg\th\ti", "#\t", "# \"unbalanced quote", "# 'single", "## # #", "#日本語 é 😀", "#\"", "#chr1\t1\t2", "###", "# trailing blank ", "#\"a\"\"b", "#,;=",
];
const BLANKS: &[&str] = &["", "\r"];

fn interleave(lines: &[Vec<u8>], rng: &mut Rng, crlf_blank: bool) -> Vec<u8> {
    let mut out = vec![];
    let filler = |out: &mut Vec<u8>, rng: &mut Rng| {
        for _ in 0..rng.below(4) {
            if rng.below(3) == 0 {
                out.extend_from_slice(if crlf_blank { rng.pick(BLANKS).as_bytes() } else { b"" });
            } else {
                out.extend_from_slice(rng.pick(COMMENTS).as_bytes());
            }
            out.push(b'\n');
        }
    };
    filler(&mut out, rng);
    for l in lines {
        out.extend_from_slice(l);
        out.push(b'\n');
        filler(&mut out, rng);
    }
    out
}

#[test]
fn t4_comments_and_blank_lines() {
    let mut rng = Rng::new(8888);
    let mut rep = Report::new("comments / blank lines");
    for ty in DIALECTS.iter() {
        for _ in 0..3000 {
            let recs = domain_gff_records(&mut rng, *ty, 4);
            let lines = split_lines(&gff_write(&recs, *ty));
            let file = interleave(&lines, &mut rng, true);
            rep.cases += 1;
            let res = if rng.below(2) == 0 { gff_read(&file[..], *ty) } else { gff_read(Slow { data: &file, pos: 0, rng: Rng::new(rng.next()) }, *ty) };
            match res {
                Ok(items) if items.len() == 4 && items.iter().zip(&recs).all(|(a, b)| a.as_ref().ok() == Some(b)) => {}
                other => rep.fail("gff", format!("file={:?} got={:?}", String::from_utf8_lossy(&file), other.map(|v| v.len()))),
            }
        }
    }
    for &k in &[0usize, 1, 3, 9] {
        for _ in 0..3000 {
            let recs = domain_bed_records(&mut rng, k, 4);
            let lines = split_lines(&bed_write(&recs));
            let file = interleave(&lines, &mut rng, true);
            rep.cases += 1;
            let res = if rng.below(2) == 0 { bed_read(&file[..]) } else { bed_read(Slow { data: &file, pos: 0, rng: Rng::new(rng.next()) }) };
            match res {
                Ok(items) if items.len() == 4 && items.iter().zip(&recs).all(|(a, b)| a.as_ref().ok() == Some(b)) => {}
                other => rep.fail("bed", format!("k={} file={:?} got={:?}", k, String::from_utf8_lossy(&file), other)),
            }
        }
    }
    let n = rep.print();
    assert_eq!(n, 0);
}

#[test]
fn t4_many_records_slow_reader() {
    let mut rng = Rng::new(10101);
    let n = 100_000;
    for ty in DIALECTS.iter() {
        let alpha = alphabet(*ty);
        let recs: Vec<gff::Record> = (0..n)
            .map(|i| {
                let mut a = MultiMap::new();
                for _ in 0..rng.range(1, 3) {
                    let k = rand_token(&mut rng, &alpha, &[], true, *ty);
                    for _ in 0..rng.range(1, 3) {
                        a.insert(k.clone(), rand_token(&mut rng, &alpha, &[], false, *ty));
                    }
                }
                gff_rec("chr1", "s", "t", i as u64, i as u64 + 5, ".", "-", [None, Some(2)][i % 2], a)
            })
            .collect();
        let mut file = gff_write(&recs, *ty);
        // comment every 1000 lines
        let lines = split_lines(&file);
        file.clear();
        for (i, l) in lines.iter().enumerate() {
            if i % 1000 == 0 {
                file.extend_from_slice(b"# comment \"\t#\n\n");
            }
            file.extend_from_slice(l);
            file.push(b'\n');
        }
        let items = gff_read(Slow { data: &file, pos: 0, rng: Rng::new(5) }, *ty).expect("no panic");
        assert_eq!(items.len(), n);
        let bad = items.iter().zip(&recs).filter(|(a, b)| a.as_ref().ok() != Some(*b)).count();
        println!("== gff {:?} {} records through 1-7 byte reader: {} mismatches", ty, n, bad);
        assert_eq!(bad, 0);
    }
    for &k in &[0usize, 4] {
        let recs: Vec<bed::Record> = (0..n / 5).flat_map(|_| domain_bed_records(&mut rng, k, 5)).collect();
        let file = bed_write(&recs);
        let items = bed_read(Slow { data: &file, pos: 0, rng: Rng::new(6) }).expect("no panic");
        assert_eq!(items.len(), recs.len());
        let bad = items.iter().zip(&recs).filter(|(a, b)| a.as_ref().ok() != Some(*b)).count();
        println!("== bed k={} {} records through 1-7 byte reader: {} mismatches", k, recs.len(), bad);
        assert_eq!(bad, 0);
    }
}

// ---------------------------------------------------------------- demonstrated violations
// (these tests PASS when the violating behaviour is present)

/// F1: U+FEFF at the start of the first column of the FIRST record is dropped
/// (csv-core strips a UTF-8 BOM); every other position keeps it.
#[test]
fn finding_f1_leading_feff_in_first_record_is_lost() {
    // BED
    let recs = vec![bed_rec("\u{feff}chr1", 1, 2, &["n".to_owned()]), bed_rec("\u{feff}chr2", 3, 4, &["\u{feff}m".to_owned()])];
    let bytes = bed_write(&recs);
    assert_eq!(&bytes[..], "\u{feff}chr1\t1\t2\tn\n\u{feff}chr2\t3\t4\t\u{feff}m\n".as_bytes());
    let items = bed_read(&bytes[..]).unwrap();
    let got: Vec<bed::Record> = items.into_iter().map(|r| r.unwrap()).collect();
    assert_eq!(got[0].chrom(), "chr1"); // wrote "\u{feff}chr1"
    assert_ne!(got[0], recs[0]);
    assert_eq!(got[1], recs[1]); // second record keeps it
    // GFF, all dialects
    for ty in DIALECTS.iter() {
        let mut a = MultiMap::new();
        a.insert("ID".to_owned(), "x".to_owned());
        let recs = vec![gff_rec("\u{feff}chr1", "s", "t", 1, 2, ".", ".", None, a.clone()), gff_rec("\u{feff}chr1", "s", "t", 1, 2, ".", ".", None, a)];
        let bytes = gff_write(&recs, *ty);
        let got: Vec<gff::Record> = gff_read(&bytes[..], *ty).unwrap().into_iter().map(|r| r.unwrap()).collect();
        assert_eq!(got[0].seqname(), "chr1");
        assert_ne!(got[0], recs[0]);
        assert_eq!(got[1], recs[1]);
    }
    // combined with '#': the whole first record disappears without an error
    let recs = vec![bed_rec("\u{feff}#1", 1, 2, &[]), bed_rec("chr2", 3, 4, &[])];
    let items = bed_read(&bed_write(&recs)[..]).unwrap();
    assert_eq!(items.len(), 1);
    assert_eq!(items[0].as_ref().unwrap(), &recs[1]);
}

/// F2: one byte of ONE record damaged into '"' at the start of a column:
/// all following (undamaged) records vanish; if the column is the last one,
/// not a single error is reported.
#[test]
fn finding_f2_quote_at_column_start_swallows_following_records() {
    // GFF3, quote replaces the first byte of the attribute column of record 2 of 4
    let good = "chr1\tsrc\texon\t1\t10\t.\t+\t0\tID=a;Note=x,y\n\
                chr2\tsrc\texon\t2\t20\t.\t+\t1\tID=b;Note=x,y\n\
                chr3\tsrc\texon\t3\t30\t.\t+\t2\tID=c;Note=x,y\n\
                chr4\tsrc\texon\t4\t40\t.\t+\t.\tID=d;Note=x,y\n";
    let all = gff_read(good.as_bytes(), GffType::GFF3).unwrap();
    assert!(all.len() == 4 && all.iter().all(|r| r.is_ok()));
    let bad = good.replacen("ID=b", "\"D=b", 1);
    assert_eq!(bad.len(), good.len());
    let items = gff_read(bad.as_bytes(), GffType::GFF3).unwrap();
    assert_eq!(items.len(), 2); // records 3 and 4 are gone
    assert!(items.iter().all(|r| r.is_ok())); // and no error anywhere
    let r2 = items[1].as_ref().unwrap();
    println!("F2 gff record 2 attributes: {:?}", r2.attributes());
    assert_eq!(r2.seqname(), "chr2");
    // the attributes of record 2 now contain material of records 3 and 4
    assert!(r2.attributes().get_vec("ID").unwrap().contains(&"c".to_owned()));
    assert!(r2.attributes().get_vec("ID").unwrap().contains(&"d".to_owned()));

    // same in a middle column: one Err item, records 3 and 4 are gone
    let bad = good.replacen("chr2\tsrc", "chr2\t\"rc", 1);
    let items = gff_read(bad.as_bytes(), GffType::GFF3).unwrap();
    assert_eq!(items.len(), 2);
    assert!(items[0].is_ok() && items[1].is_err());

    // GFF2 / GTF2
    for ty in [GffType::GFF2, GffType::GTF2] {
        let good = "chr1\tsrc\texon\t1\t10\t.\t+\t0\tID a;Note x\nchr2\tsrc\texon\t2\t20\t.\t+\t1\tID b;Note x\nchr3\tsrc\texon\t3\t30\t.\t+\t2\tID c;Note x\n";
        let bad = good.replacen("ID b", "\"D b", 1);
        let items = gff_read(bad.as_bytes(), ty).unwrap();
        assert_eq!(items.len(), 2);
        assert!(items.iter().all(|r| r.is_ok()));
    }

    // BED with 4 columns, quote replaces first byte of the name of record 2 of 4
    let good = "chr1\t1\t10\tn1\nchr2\t2\t20\tn2\nchr3\t3\t30\tn3\nchr4\t4\t40\tn4\n";
    let bad = good.replacen("n2", "\"2", 1);
    let items = bed_read(bad.as_bytes()).unwrap();
    assert_eq!(items.len(), 2);
    assert!(items.iter().all(|r| r.is_ok()));
    let r2 = items[1].as_ref().unwrap();
    assert_eq!(r2.name(), Some("2\nchr3\t3\t30\tn3\nchr4\t4\t40\tn4\n"));
    // BED with 3 columns: one error, the two following records are gone
    let good = "chr1\t1\t10\nchr2\t2\t20\nchr3\t3\t30\nchr4\t4\t40\n";
    let bad = good.replacen("chr2\t2", "chr2\t\"", 1);
    let items = bed_read(bad.as_bytes()).unwrap();
    assert_eq!(items.len(), 2);
    assert!(items[0].is_ok() && items[1].is_err());
}

/// F3 (borderline, related to the known quote stripping): numeric / phase
/// columns wrapped in double quotes are accepted as numbers.
#[test]
fn finding_f3_quoted_numbers_are_accepted() {
    let line = "chr1\tsrc\texon\t\"5\"\t\"10\"\t.\t+\t\"1\"\tID=a\n";
    let items = gff_read(line.as_bytes(), GffType::GFF3).unwrap();
    println!("F3 gff: {:?}", items);
    let r = items[0].as_ref().unwrap();
    assert_eq!((*r.start(), *r.end()), (5, 10));
    assert_eq!(r.phase(), &gff::Phase::from(1u8));
    let items = bed_read(&b"chr1\t1\t2\nchr2\t\"3\"\t\"4\"x\nchr3\t\"5\"6\t7\n"[..]).unwrap();
    println!("F3 bed: {:?}", items);
    assert!(items[1].is_err()); // "4"x -> 4x, rejected
    let r = items[2].as_ref().unwrap();
    assert_eq!((r.start(), r.end()), (56, 7)); // "5"6 read as 56
}

// ---------------------------------------------------------------- extras that hold
#[test]
fn t5_file_roundtrip_to_file_from_file() {
    let dir = std::env::temp_dir().join(format!("audit2_c13_{}", std::process::id()));
    std::fs::create_dir_all(&dir).unwrap();
    let mut rng = Rng::new(1);
    for ty in DIALECTS.iter() {
        let recs = domain_gff_records(&mut rng, *ty, 500);
        let p = dir.join("x.gff");
        {
            let mut w = gff::Writer::to_file(&p, *ty).unwrap();
            for r in &recs {
                w.write(r).unwrap();
            }
        }
        let mut rd = gff::Reader::from_file(&p, *ty).unwrap();
        let got: Vec<gff::Record> = rd.records().map(|r| r.unwrap()).collect();
        assert_eq!(got, recs);
    }
    for k in 0..12 {
        let recs = domain_bed_records(&mut rng, k, 500);
        let p = dir.join("x.bed");
        {
            let mut w = bed::Writer::to_file(&p).unwrap();
            for r in &recs {
                w.write(r).unwrap();
            }
        }
        let mut rd = bed::Reader::from_file(&p).unwrap();
        let got: Vec<bed::Record> = rd.records().map(|r| r.unwrap()).collect();
        assert_eq!(got, recs);
    }
    std::fs::remove_dir_all(&dir).ok();
}

/// placeholders and extreme coordinates, explicit
#[test]
fn t5_placeholders_and_extreme_coordinates() {
    for ty in DIALECTS.iter() {
        let mut recs = vec![];
        for &(s, e) in &[(0u64, 0u64), (u64::MAX, 0), (1 << 63, u64::MAX), (u64::MAX, u64::MAX), (10, 5)] {
            for score in [".", "", "0", "1e-5", "-3.5", " ."] {
                for strand in [".", "+", "-", "?", ""] {
                    for ph in [None, Some(0u8), Some(1), Some(2)] {
                        let mut a = MultiMap::new();
                        a.insert("k".to_owned(), "v".to_owned());
                        recs.push(gff_rec("c", "s", "t", s, e, score, strand, ph, a));
                    }
                }
            }
        }
        let got: Vec<gff::Record> = gff_read(&gff_write(&recs, *ty)[..], *ty).unwrap().into_iter().map(|r| r.unwrap()).collect();
        assert_eq!(got, recs);
        println!("== placeholders {:?}: {} records ok", ty, recs.len());
    }
}
