// Second-pass audit of the FASTA/FASTQ round-trip / layout / truncation property.
// Only the public API of `bio::io::{fasta, fastq, fastx}` is used.

use bio::io::fasta::{self, FastaRead};
use bio::io::fastq::{self, FastqRead};
use bio::io::fastx::{self, EitherRecord, EitherRecords, Kind, Record as FxRecord};
use std::io::{self, BufRead, BufReader, Cursor, Read, Seek, SeekFrom};
use std::panic::{catch_unwind, AssertUnwindSafe};

// ---------------------------------------------------------------- helpers

#[derive(Clone)]
struct Rng(u64);
impl Rng {
    fn new(seed: u64) -> Self {
        Rng(seed.wrapping_mul(0x9E3779B97F4A7C15) | 1)
    }
    fn next(&mut self) -> u64 {
        let mut x = self.0;
        x ^= x >> 12;
        x ^= x << 25;
        x ^= x >> 27;
        self.0 = x;
        x.wrapping_mul(0x2545F4914F6CDD1D)
    }
    fn below(&mut self, n: usize) -> usize {
        (self.next() % (n as u64)) as usize
    }
    fn range(&mut self, lo: usize, hi: usize) -> usize {
        lo + self.below(hi - lo + 1)
    }
    fn chance(&mut self, num: usize, den: usize) -> bool {
        self.below(den) < num
    }
}

/// How the underlying stream fragments its reads.
#[derive(Clone, Debug)]
enum Frag {
    All,
    Fixed(usize),
    FirstAlone,
    SplitAt(usize),
    Random(u64),
    /// one byte at a time, and every other call fails with Interrupted
    Interrupting,
}

struct FragReader {
    data: Vec<u8>,
    pos: usize,
    frag: Frag,
    rng: Rng,
    calls: usize,
}

impl FragReader {
    fn new(data: &[u8], frag: Frag) -> Self {
        let seed = if let Frag::Random(s) = frag { s } else { 1 };
        FragReader {
            data: data.to_vec(),
            pos: 0,
            frag,
            rng: Rng::new(seed),
            calls: 0,
        }
    }
}

impl Read for FragReader {
    fn read(&mut self, buf: &mut [u8]) -> io::Result<usize> {
        self.calls += 1;
        if buf.is_empty() {
            return Ok(0);
        }
        let rest = self.data.len() - self.pos;
        if rest == 0 {
            return Ok(0);
        }
        let want = match self.frag {
            Frag::All => rest,
            Frag::Fixed(n) => n,
            Frag::FirstAlone => {
                if self.pos == 0 {
                    1
                } else {
                    rest
                }
            }
            Frag::SplitAt(p) => {
                if self.pos < p {
                    p - self.pos
                } else {
                    rest
                }
            }
            Frag::Random(_) => 1 + self.rng.below(9),
            Frag::Interrupting => {
                if self.calls % 2 == 1 {
                    return Err(io::Error::new(io::ErrorKind::Interrupted, "intr"));
                }
                1
            }
        };
        let n = want.min(rest).min(buf.len()).max(1);
        buf[..n].copy_from_slice(&self.data[self.pos..self.pos + n]);
        self.pos += n;
        Ok(n)
    }
}

#[derive(Clone, Debug, PartialEq, Eq)]
struct Rec {
    id: String,
    desc: Option<String>,
    seq: Vec<u8>,
    qual: Vec<u8>,
}

const ID_CHARS: &[&str] = &[
    "a", "b", "Z", "0", "9", "@", "+", ">", ":", "/", "|", "#", "_", "-", ".", ";", "=", "\\", "\"",
    "'", "é", "ß", "日", "本", "🧬", "\u{feff}", "\u{200b}", "~", "!", "*",
];
const DESC_INNER: &[&str] = &[
    "a", "b", "Z", "0", " ", " ", "\t", "@", "+", ">", ":", "é", "日", "🧬", "=", ";", "  ", "\u{feff}",
    "x", "y",
];
const RESIDUES: &[u8] = b"ACGTNacgtnRYKMSWBDHVU*-.XZ";

fn gen_id(rng: &mut Rng) -> String {
    let n = rng.range(1, 8);
    let mut s = String::new();
    for _ in 0..n {
        s.push_str(ID_CHARS[rng.below(ID_CHARS.len())]);
    }
    s
}

fn gen_desc(rng: &mut Rng) -> Option<String> {
    if rng.chance(1, 3) {
        return None;
    }
    let n = rng.range(0, 8);
    let mut s = String::new();
    for _ in 0..n {
        s.push_str(DESC_INNER[rng.below(DESC_INNER.len())]);
    }
    // must be non-empty and must not end in white space (known limitation)
    s.push_str(ID_CHARS[rng.below(ID_CHARS.len())]);
    Some(s)
}

fn gen_rec(rng: &mut Rng, maxlen: usize) -> Rec {
    let len = rng.range(1, maxlen);
    let seq: Vec<u8> = (0..len)
        .map(|_| {
            let n = if rng.chance(3, 4) { 4 } else { RESIDUES.len() };
            RESIDUES[rng.below(n)]
        })
        .collect();
    let mut qual: Vec<u8> = (0..len).map(|_| 33 + rng.below(94) as u8).collect();
    match rng.below(6) {
        0 | 1 => qual[0] = b'@',
        2 => qual[0] = b'+',
        3 => qual[0] = b'>',
        _ => {}
    }
    // sprinkle more structural characters into the qualities
    for q in qual.iter_mut() {
        if rng.chance(1, 6) {
            *q = [b'@', b'+', b'>', b'!', b'~'][rng.below(5)];
        }
    }
    Rec {
        id: gen_id(rng),
        desc: gen_desc(rng),
        seq,
        qual,
    }
}

fn gen_list(rng: &mut Rng, maxrecs: usize, maxlen: usize) -> Vec<Rec> {
    let n = rng.range(1, maxrecs);
    (0..n).map(|_| gen_rec(rng, maxlen)).collect()
}

fn write_fastq(recs: &[Rec]) -> Vec<u8> {
    let mut out = Vec::new();
    {
        let mut w = fastq::Writer::new(&mut out);
        for r in recs {
            w.write(&r.id, r.desc.as_deref(), &r.seq, &r.qual).unwrap();
        }
        w.flush().unwrap();
    }
    out
}

fn write_fasta(recs: &[Rec], wrap: Option<usize>) -> Vec<u8> {
    let mut out = Vec::new();
    {
        let mut w = fasta::Writer::new(&mut out);
        w.set_linewrap(wrap);
        for r in recs {
            w.write(&r.id, r.desc.as_deref(), &r.seq).unwrap();
        }
        w.flush().unwrap();
    }
    out
}

fn to_crlf(data: &[u8]) -> Vec<u8> {
    let mut out = Vec::with_capacity(data.len() + data.len() / 8);
    for &b in data {
        if b == b'\n' {
            out.push(b'\r');
        }
        out.push(b);
    }
    out
}

/// split `len` into `parts` positive parts
fn composition(rng: &mut Rng, len: usize, parts: usize) -> Vec<usize> {
    assert!(parts >= 1 && parts <= len);
    // selection sampling of parts-1 cut points out of 1..len-1
    let mut cuts: Vec<usize> = Vec::new();
    let mut needed = parts - 1;
    for c in 1..len {
        if needed == 0 {
            break;
        }
        let remaining = len - c;
        if rng.below(remaining) < needed {
            cuts.push(c);
            needed -= 1;
        }
    }
    assert_eq!(needed, 0);
    let mut res = Vec::new();
    let mut prev = 0;
    for c in cuts {
        res.push(c - prev);
        prev = c;
    }
    res.push(len - prev);
    res
}

/// multi-line FASTQ layout: sequence wrapped at a width, qualities split into the same number of
/// lines (same widths if `same`, else arbitrary positive widths).
fn multiline_fastq(recs: &[Rec], rng: &mut Rng, same: bool, eol: &str) -> Vec<u8> {
    let mut out = Vec::new();
    for r in recs {
        out.push(b'@');
        out.extend_from_slice(r.id.as_bytes());
        if let Some(d) = &r.desc {
            out.push(b' ');
            out.extend_from_slice(d.as_bytes());
        }
        out.extend_from_slice(eol.as_bytes());
        let w = rng.range(1, r.seq.len().max(2));
        let mut nlines = 0;
        for c in r.seq.chunks(w) {
            out.extend_from_slice(c);
            out.extend_from_slice(eol.as_bytes());
            nlines += 1;
        }
        out.push(b'+');
        if rng.chance(1, 3) {
            // optional repetition of the header on the separator line
            out.extend_from_slice(r.id.as_bytes());
        }
        out.extend_from_slice(eol.as_bytes());
        if same {
            for c in r.qual.chunks(w) {
                out.extend_from_slice(c);
                out.extend_from_slice(eol.as_bytes());
            }
        } else {
            let comp = composition(rng, r.qual.len(), nlines);
            let mut p = 0;
            for c in comp {
                out.extend_from_slice(&r.qual[p..p + c]);
                out.extend_from_slice(eol.as_bytes());
                p += c;
            }
        }
    }
    out
}

fn fq_to_rec(r: &fastq::Record) -> Rec {
    Rec {
        id: r.id().to_owned(),
        desc: r.desc().map(|s| s.to_owned()),
        seq: r.seq().to_vec(),
        qual: r.qual().to_vec(),
    }
}

fn fa_to_rec(r: &fasta::Record) -> Rec {
    Rec {
        id: r.id().to_owned(),
        desc: r.desc().map(|s| s.to_owned()),
        seq: r.seq().to_vec(),
        qual: vec![],
    }
}

fn either_to_rec(r: &EitherRecord) -> Rec {
    Rec {
        id: FxRecord::id(r).to_owned(),
        desc: FxRecord::desc(r).map(|s| s.to_owned()),
        seq: FxRecord::seq(r).to_vec(),
        qual: FxRecord::qual(r).map(|q| q.to_vec()).unwrap_or_default(),
    }
}

/// Result of driving one reader over one input.
struct Outcome {
    /// Ok records passing check()
    good: Vec<Rec>,
    /// number of items / calls
    items: usize,
    /// did the loop end by itself within the bound
    terminated: bool,
}

fn run_fq_records<R: Read>(cap: usize, r: R, bound: usize) -> Outcome {
    let mut good = Vec::new();
    let mut items = 0;
    let mut terminated = false;
    let mut it = fastq::Reader::with_capacity(cap, r).records();
    while items <= bound {
        match it.next() {
            None => {
                terminated = true;
                break;
            }
            Some(Ok(rec)) => {
                if rec.check().is_ok() {
                    good.push(fq_to_rec(&rec));
                }
            }
            Some(Err(_)) => {}
        }
        items += 1;
    }
    Outcome {
        good,
        items,
        terminated,
    }
}

fn run_fq_readloop<R: Read>(cap: usize, r: R, bound: usize) -> Outcome {
    let mut good = Vec::new();
    let mut items = 0;
    let mut terminated = false;
    let mut rd = fastq::Reader::with_capacity(cap, r);
    let mut rec = fastq::Record::new();
    while items <= bound {
        match rd.read(&mut rec) {
            Ok(()) => {
                if rec.is_empty() {
                    terminated = true;
                    break;
                }
                if rec.check().is_ok() {
                    good.push(fq_to_rec(&rec));
                }
            }
            Err(_) => {}
        }
        items += 1;
    }
    Outcome {
        good,
        items,
        terminated,
    }
}

fn run_either<R: Read>(cap: usize, r: R, bound: usize) -> (Outcome, Vec<Kind>) {
    let mut good = Vec::new();
    let mut kinds = Vec::new();
    let mut items = 0;
    let mut terminated = false;
    let mut it = EitherRecords::from(BufReader::with_capacity(cap, r));
    while items <= bound {
        match it.next() {
            None => {
                terminated = true;
                break;
            }
            Some(Ok(rec)) => {
                kinds.push(FxRecord::kind(&rec));
                if FxRecord::check(&rec).is_ok() {
                    good.push(either_to_rec(&rec));
                }
            }
            Some(Err(_)) => {}
        }
        items += 1;
    }
    (
        Outcome {
            good,
            items,
            terminated,
        },
        kinds,
    )
}

fn run_fa_records<R: Read>(cap: usize, r: R, bound: usize) -> Outcome {
    let mut good = Vec::new();
    let mut items = 0;
    let mut terminated = false;
    let mut it = fasta::Reader::with_capacity(cap, r).records();
    while items <= bound {
        match it.next() {
            None => {
                terminated = true;
                break;
            }
            Some(Ok(rec)) => {
                if rec.check().is_ok() {
                    good.push(fa_to_rec(&rec));
                }
            }
            Some(Err(_)) => {}
        }
        items += 1;
    }
    Outcome {
        good,
        items,
        terminated,
    }
}

/// FASTA read() loop; stops at the first error (repeating errors are a known limitation).
fn run_fa_readloop<R: Read>(cap: usize, r: R, bound: usize) -> Outcome {
    let mut good = Vec::new();
    let mut items = 0;
    let mut terminated = false;
    let mut rd = fasta::Reader::with_capacity(cap, r);
    let mut rec = fasta::Record::new();
    while items <= bound {
        match rd.read(&mut rec) {
            Ok(()) => {
                if rec.is_empty() {
                    terminated = true;
                    break;
                }
                if rec.check().is_ok() {
                    good.push(fa_to_rec(&rec));
                }
            }
            Err(_) => {
                terminated = true;
                break;
            }
        }
        items += 1;
    }
    Outcome {
        good,
        items,
        terminated,
    }
}

fn pick_frag(rng: &mut Rng, len: usize) -> Frag {
    match rng.below(7) {
        0 => Frag::All,
        1 => Frag::Fixed(1),
        2 => Frag::Fixed(rng.range(2, 7)),
        3 => Frag::FirstAlone,
        4 => Frag::SplitAt(rng.below(len + 1)),
        5 => Frag::Random(rng.next()),
        _ => Frag::Interrupting,
    }
}

fn pick_cap(rng: &mut Rng) -> usize {
    [1, 1, 2, 3, 4, 5, 7, 16, 64, 8192][rng.below(10)]
}

struct Failures {
    msgs: Vec<String>,
    count: usize,
}
impl Failures {
    fn new() -> Self {
        Failures {
            msgs: vec![],
            count: 0,
        }
    }
    fn add(&mut self, m: String) {
        self.count += 1;
        if self.msgs.len() < 12 {
            self.msgs.push(m);
        }
    }
    fn finish(self, what: &str) {
        if self.count > 0 {
            for m in &self.msgs {
                eprintln!("VIOLATION[{}]: {}", what, m);
            }
            panic!("{}: {} violations", what, self.count);
        }
    }
}

fn esc(b: &[u8]) -> String {
    let mut s = String::new();
    for &c in b {
        s.push_str(&std::ascii::escape_default(c).to_string());
    }
    s
}

/// number of originals that are completely contained in `data[..cut]`
/// (`ends[i]` = offset just after the last quality/sequence byte of record i).
fn expected_complete(ends: &[usize], cut: usize) -> usize {
    ends.iter().filter(|&&e| e <= cut).count()
}

/// For a FASTQ layout, compute the offset just after the last payload byte of each record
/// by parsing our own layout: records are separated where a line starts a new header; we
/// recompute by re-laying out prefixes. Simpler: the caller passes per-record byte lengths.
fn record_payload_ends(layout_lens: &[usize], eol_len: usize) -> Vec<usize> {
    let mut ends = Vec::new();
    let mut p = 0;
    for l in layout_lens {
        p += l;
        ends.push(p - eol_len);
    }
    ends
}

fn check_cut_outcome(
    fails: &mut Failures,
    reader: &str,
    recs: &[Rec],
    data: &[u8],
    cut: usize,
    ctx: &str,
    o: &Outcome,
    min_complete: usize,
) {
    if !o.terminated {
        fails.add(format!(
            "{} did not terminate within bound; cut={} {} data={}",
            reader,
            cut,
            ctx,
            esc(&data[..cut])
        ));
        return;
    }
    if o.items > cut + 1 {
        fails.add(format!(
            "{} yielded {} items for {} bytes; {} data={}",
            reader,
            o.items,
            cut,
            ctx,
            esc(&data[..cut])
        ));
    }
    // strict: good records must be a prefix of the originals
    let is_prefix = o.good.len() <= recs.len() && o.good.iter().zip(recs).all(|(a, b)| a == b);
    if !is_prefix {
        fails.add(format!(
            "{} WRONG RECORD; cut={} {} data={} got={:?}",
            reader,
            cut,
            ctx,
            esc(&data[..cut]),
            o.good
        ));
    }
    if o.good.len() < min_complete {
        fails.add(format!(
            "{} LOST complete record(s): got {} expected >= {}; cut={} {} data={}",
            reader,
            o.good.len(),
            min_complete,
            cut,
            ctx,
            esc(&data[..cut])
        ));
    }
}

// --------------------------------------------------------- 1. truncation

fn per_record_lens(recs: &[Rec], mk: &mut dyn FnMut(&[Rec]) -> Vec<u8>) -> Vec<usize> {
    // layout functions are deterministic only for the writer; for the multi-line layouts we
    // derive the record boundaries differently (see truncation test).
    recs.iter().map(|r| mk(std::slice::from_ref(r)).len()).collect()
}

#[test]
fn t1_fastq_truncation_every_offset() {
    let mut fails = Failures::new();
    let mut rng = Rng::new(20261003);
    let mut n_lists = 0usize;
    let mut n_layouts = 0usize;
    let mut n_cuts = 0usize;
    let mut n_runs = 0usize;
    for iter in 0..2500 {
        let recs = gen_list(&mut rng, if iter % 10 == 0 { 6 } else { 3 }, 40);
        n_lists += 1;
        // layouts: (bytes, eol_len, per-record lens)
        let mut layouts: Vec<(String, Vec<u8>, Vec<usize>, usize)> = Vec::new();
        let w = write_fastq(&recs);
        let lens = per_record_lens(&recs, &mut |r| write_fastq(r));
        assert_eq!(lens.iter().sum::<usize>(), w.len());
        layouts.push(("writer-LF".into(), w.clone(), lens.clone(), 1));
        let crlf = to_crlf(&w);
        let lens_crlf: Vec<usize> = recs
            .iter()
            .map(|r| to_crlf(&write_fastq(std::slice::from_ref(r))).len())
            .collect();
        layouts.push(("writer-CRLF".into(), crlf, lens_crlf, 2));
        for (same, eol) in [(true, "\n"), (false, "\n"), (true, "\r\n"), (false, "\r\n")] {
            // build record by record so that boundaries are known
            let mut data = Vec::new();
            let mut lens = Vec::new();
            for r in &recs {
                let part = multiline_fastq(std::slice::from_ref(r), &mut rng, same, eol);
                lens.push(part.len());
                data.extend_from_slice(&part);
            }
            layouts.push((
                format!("multiline same={} eol={:?}", same, eol),
                data,
                lens,
                eol.len(),
            ));
        }
        for (name, data, lens, eol_len) in &layouts {
            n_layouts += 1;
            let ends = record_payload_ends(lens, *eol_len);
            // sanity: uncut stream gives all originals through all three readers
            for cut in 0..=data.len() {
                n_cuts += 1;
                let prefix = &data[..cut];
                let min_complete = expected_complete(&ends, cut);
                let bound = cut + 2;
                let cap = pick_cap(&mut rng);
                let frag = pick_frag(&mut rng, cut);
                let ctx = format!("layout={} cap={} frag={:?}", name, cap, frag);
                let res = catch_unwind(AssertUnwindSafe(|| {
                    let a = run_fq_records(8192, prefix, bound);
                    let b = run_fq_records(cap, FragReader::new(prefix, frag.clone()), bound);
                    let c = run_fq_readloop(cap, FragReader::new(prefix, frag.clone()), bound);
                    let (d, kinds) = run_either(cap, FragReader::new(prefix, frag.clone()), bound);
                    (a, b, c, d, kinds)
                }));
                n_runs += 4;
                match res {
                    Err(_) => fails.add(format!("PANIC cut={} {} data={}", cut, ctx, esc(prefix))),
                    Ok((a, b, c, d, kinds)) => {
                        check_cut_outcome(&mut fails, "records()", &recs, data, cut, &ctx, &a, min_complete);
                        check_cut_outcome(&mut fails, "records()/frag", &recs, data, cut, &ctx, &b, min_complete);
                        check_cut_outcome(&mut fails, "read-loop", &recs, data, cut, &ctx, &c, min_complete);
                        check_cut_outcome(&mut fails, "EitherRecords", &recs, data, cut, &ctx, &d, min_complete);
                        if kinds.iter().any(|k| *k != Kind::FASTQ) {
                            fails.add(format!("EitherRecords yielded a FASTA record for FASTQ; cut={} {}", cut, ctx));
                        }
                        if a.good != b.good || a.good != c.good || a.good != d.good {
                            fails.add(format!(
                                "readers disagree; cut={} {} data={}",
                                cut,
                                ctx,
                                esc(prefix)
                            ));
                        }
                        if cut == data.len() && a.good != recs {
                            fails.add(format!("full stream not lossless; {} data={}", ctx, esc(prefix)));
                        }
                    }
                }
            }
        }
    }
    eprintln!(
        "t1: lists={} layouts={} cuts={} reader-runs={}",
        n_lists, n_layouts, n_cuts, n_runs
    );
    fails.finish("t1_fastq_truncation");
}

/// Tiny alphabets, exhaustive: every record list made from a small set of nasty fields.
#[test]
fn t1b_fastq_truncation_nasty_small() {
    let mut fails = Failures::new();
    let ids = ["@", "+", ">", "@a", "a@", "é", "a"];
    let descs = [None, Some("@"), Some("+"), Some(" x"), Some("@b +"), Some("日")];
    let sqs: [(&[u8], &[u8]); 8] = [
        (b"A", b"@"),
        (b"A", b"+"),
        (b"A", b">"),
        (b"AC", b"@@"),
        (b"AC", b"+@"),
        (b"ACG", b"@a+"),
        (b"ACGT", b"@ACG"),
        (b"ACGT", b"+\x7e@>"),
    ];
    let mut singles = Vec::new();
    for id in ids {
        for d in descs {
            for (s, q) in sqs {
                singles.push(Rec {
                    id: id.to_owned(),
                    desc: d.map(|x| x.to_owned()),
                    seq: s.to_vec(),
                    qual: q.to_vec(),
                });
            }
        }
    }
    let mut rng = Rng::new(7);
    let mut n_cuts = 0usize;
    let mut n_lists = 0usize;
    // all singles, and many pairs/triples
    let mut lists: Vec<Vec<Rec>> = singles.iter().map(|r| vec![r.clone()]).collect();
    for _ in 0..6000 {
        let n = rng.range(2, 3);
        lists.push((0..n).map(|_| singles[rng.below(singles.len())].clone()).collect());
    }
    for recs in &lists {
        n_lists += 1;
        for eol in ["\n", "\r\n"] {
            for mode in 0..3 {
                let mut data = Vec::new();
                let mut lens = Vec::new();
                for r in recs {
                    let part = match mode {
                        0 => {
                            let w = write_fastq(std::slice::from_ref(r));
                            if eol == "\n" {
                                w
                            } else {
                                to_crlf(&w)
                            }
                        }
                        1 => multiline_fastq(std::slice::from_ref(r), &mut rng, true, eol),
                        _ => multiline_fastq(std::slice::from_ref(r), &mut rng, false, eol),
                    };
                    lens.push(part.len());
                    data.extend_from_slice(&part);
                }
                let ends = record_payload_ends(&lens, eol.len());
                for cut in 0..=data.len() {
                    n_cuts += 1;
                    let prefix = &data[..cut];
                    let minc = expected_complete(&ends, cut);
                    let ctx = format!("mode={} eol={:?}", mode, eol);
                    let res = catch_unwind(AssertUnwindSafe(|| {
                        let a = run_fq_records(8192, prefix, cut + 2);
                        let c = run_fq_readloop(1, FragReader::new(prefix, Frag::Fixed(1)), cut + 2);
                        let (d, _) = run_either(3, FragReader::new(prefix, Frag::FirstAlone), cut + 2);
                        (a, c, d)
                    }));
                    match res {
                        Err(_) => fails.add(format!("PANIC cut={} {} data={}", cut, ctx, esc(prefix))),
                        Ok((a, c, d)) => {
                            check_cut_outcome(&mut fails, "records()", recs, &data, cut, &ctx, &a, minc);
                            check_cut_outcome(&mut fails, "read-loop", recs, &data, cut, &ctx, &c, minc);
                            check_cut_outcome(&mut fails, "EitherRecords", recs, &data, cut, &ctx, &d, minc);
                        }
                    }
                }
            }
        }
    }
    eprintln!("t1b: lists={} cuts={} (x3 readers)", n_lists, n_cuts);
    fails.finish("t1b_fastq_truncation_nasty_small");
}

// ------------------------------------------------------------ 2. garbage

fn drive_garbage(fails: &mut Failures, data: &[u8], cap: usize, frag: Frag) {
    let bound = data.len() + 2;
    let res = catch_unwind(AssertUnwindSafe(|| {
        let a = run_fq_records(cap, FragReader::new(data, frag.clone()), bound);
        let b = run_fq_readloop(cap, FragReader::new(data, frag.clone()), bound);
        let c = run_fa_records(cap, FragReader::new(data, frag.clone()), bound);
        let d = run_fa_readloop(cap, FragReader::new(data, frag.clone()), bound);
        let (e, _) = run_either(cap, FragReader::new(data, frag.clone()), bound);
        // sniffers
        let _ = fastx::get_kind(FragReader::new(data, frag.clone()));
        let mut cur = Cursor::new(data.to_vec());
        let _ = fastx::get_kind_seek(&mut cur);
        let mut er = EitherRecords::from(BufReader::with_capacity(cap, FragReader::new(data, frag.clone())));
        let _ = er.kind();
        let _ = er.kind();
        [a, b, c, d, e]
    }));
    match res {
        Err(_) => fails.add(format!("PANIC cap={} frag={:?} data={}", cap, frag, esc(data))),
        Ok(outs) => {
            let names = ["fq.records", "fq.read-loop", "fa.records", "fa.read-loop", "either"];
            for (o, n) in outs.iter().zip(names) {
                if !o.terminated {
                    fails.add(format!("{} did not terminate; data={}", n, esc(data)));
                }
                // every item consumes at least one byte; allow one extra for the final one
                if o.items > data.len() {
                    fails.add(format!(
                        "{} yielded {} items for {} bytes; data={}",
                        n,
                        o.items,
                        data.len(),
                        esc(data)
                    ));
                }
            }
        }
    }
}

#[test]
fn t2_garbage_exhaustive_small() {
    let mut fails = Failures::new();
    let alpha: &[u8] = b"@+>\n\rA";
    let mut n = 0usize;
    for len in 0..=7usize {
        let total = alpha.len().pow(len as u32);
        for mut k in 0..total {
            let mut data = Vec::with_capacity(len);
            for _ in 0..len {
                data.push(alpha[k % alpha.len()]);
                k /= alpha.len();
            }
            drive_garbage(&mut fails, &data, 8192, Frag::All);
            if len <= 6 {
                drive_garbage(&mut fails, &data, 1, Frag::Fixed(1));
            }
            n += 1;
        }
    }
    eprintln!("t2a: exhaustive garbage strings={}", n);
    fails.finish("t2_garbage_exhaustive_small");
}

#[test]
fn t2b_garbage_random() {
    let mut fails = Failures::new();
    let mut rng = Rng::new(99);
    let alphas: [&[u8]; 4] = [
        b"@+>\n\rAC \t",
        b"@@++>>\n\n\n\r\rACGT!~ \t\x00\xff\xc3\xa9\xe6\x97\xa5\xf0\x9f",
        b"\n\r@+",
        b"@+>\nACGTIII!!!",
    ];
    let mut n = 0usize;
    for i in 0..150_000 {
        let alpha = alphas[i % alphas.len()];
        let len = rng.range(0, if i % 50 == 0 { 400 } else { 40 });
        let data: Vec<u8> = (0..len).map(|_| alpha[rng.below(alpha.len())]).collect();
        let cap = pick_cap(&mut rng);
        let frag = pick_frag(&mut rng, len);
        drive_garbage(&mut fails, &data, cap, frag);
        n += 1;
    }
    // fully arbitrary bytes
    for _ in 0..50_000 {
        let len = rng.range(0, 64);
        let data: Vec<u8> = (0..len).map(|_| rng.below(256) as u8).collect();
        let cap = pick_cap(&mut rng);
        let frag = pick_frag(&mut rng, len);
        drive_garbage(&mut fails, &data, cap, frag);
        n += 1;
    }
    // mutated valid files: flip / delete / insert bytes
    for _ in 0..40_000 {
        let recs = gen_list(&mut rng, 3, 12);
        let mut data = if rng.chance(1, 2) {
            write_fastq(&recs)
        } else {
            write_fasta(&recs, Some(rng.range(1, 8)))
        };
        if rng.chance(1, 3) {
            data = to_crlf(&data);
        }
        for _ in 0..rng.range(1, 4) {
            if data.is_empty() {
                break;
            }
            let p = rng.below(data.len());
            match rng.below(3) {
                0 => data[p] = b"@+>\n\r \xffA"[rng.below(8)],
                1 => {
                    data.remove(p);
                }
                _ => data.insert(p, b"@+>\n\r \xffA"[rng.below(8)]),
            }
        }
        let cap = pick_cap(&mut rng);
        let frag = pick_frag(&mut rng, data.len());
        drive_garbage(&mut fails, &data, cap, frag);
        n += 1;
    }
    // pathological: header followed by a very large number of blank lines / no '+'
    for body in [&b"\n"[..], b"\r\n", b"A\n", b"+\n", b"@\n", b"@\n+\n"] {
        let mut data = b"@x\n".to_vec();
        for _ in 0..20_000 {
            data.extend_from_slice(body);
        }
        drive_garbage(&mut fails, &data, 16, Frag::Fixed(5));
        n += 1;
    }
    eprintln!("t2b: random garbage inputs={}", n);
    fails.finish("t2b_garbage_random");
}

/// FASTA/FASTQ (written, any wrap) cut at every offset: no panic, termination, for FASTA too.
#[test]
fn t2c_fasta_cut_no_panic() {
    let mut fails = Failures::new();
    let mut rng = Rng::new(4242);
    let mut n = 0usize;
    for _ in 0..1500 {
        let recs = gen_list(&mut rng, 3, 30);
        let mut data = write_fasta(&recs, if rng.chance(1, 4) { None } else { Some(rng.range(1, 12)) });
        if rng.chance(1, 2) {
            data = to_crlf(&data);
        }
        for cut in 0..=data.len() {
            let cap = pick_cap(&mut rng);
            let frag = pick_frag(&mut rng, cut);
            drive_garbage(&mut fails, &data[..cut], cap, frag);
            n += 1;
        }
    }
    eprintln!("t2c: fasta cuts={}", n);
    fails.finish("t2c_fasta_cut_no_panic");
}

// ------------------------------------------------------------- 3. sniffer

fn read_all<R: Read>(mut r: R) -> Vec<u8> {
    let mut v = Vec::new();
    // manual loop, tolerate Interrupted
    let mut buf = [0u8; 7];
    loop {
        match r.read(&mut buf) {
            Ok(0) => break,
            Ok(n) => v.extend_from_slice(&buf[..n]),
            Err(e) if e.kind() == io::ErrorKind::Interrupted => continue,
            Err(e) => panic!("read error {}", e),
        }
    }
    v
}

#[test]
fn t3_sniffer() {
    let mut fails = Failures::new();
    let mut rng = Rng::new(31337);
    let frags = |len: usize| {
        let mut v = vec![
            Frag::All,
            Frag::Fixed(1),
            Frag::Fixed(2),
            Frag::FirstAlone,
            Frag::Interrupting,
            Frag::Random(5),
        ];
        for p in 0..=len.min(12) {
            v.push(Frag::SplitAt(p));
        }
        v
    };
    let mut n = 0usize;
    for iter in 0..1500 {
        let mut recs = gen_list(&mut rng, 4, 30);
        // force the special cases asked for
        if iter % 3 == 0 {
            recs[0].qual[0] = b'>';
            recs[0].id = format!("@{}", recs[0].id);
        }
        if iter % 3 == 1 {
            recs[0].id = format!(">{}", recs[0].id);
            recs[0].qual[0] = b'@';
        }
        let fq = write_fastq(&recs);
        let fa = write_fasta(&recs, Some(rng.range(1, 50)));
        let fa_recs: Vec<Rec> = recs
            .iter()
            .map(|r| Rec {
                qual: vec![],
                ..r.clone()
            })
            .collect();
        for (data, kind, expect) in [
            (fq.clone(), Kind::FASTQ, recs.clone()),
            (to_crlf(&fq), Kind::FASTQ, recs.clone()),
            (fa.clone(), Kind::FASTA, fa_recs.clone()),
            (to_crlf(&fa), Kind::FASTA, fa_recs.clone()),
        ] {
            for frag in frags(data.len()) {
                for cap in [1usize, 2, 5, 8192] {
                    n += 1;
                    let ctx = format!("kind={} frag={:?} cap={}", kind, frag, cap);
                    // get_kind: kind and stream equivalence
                    match fastx::get_kind(FragReader::new(&data, frag.clone())) {
                        Ok((rd, k)) => {
                            if k != kind {
                                fails.add(format!("get_kind wrong kind {} {}", k, ctx));
                            }
                            if read_all(rd) != data {
                                fails.add(format!("get_kind reader not equivalent {}", ctx));
                            }
                        }
                        Err(e) => fails.add(format!("get_kind error {} {}", e, ctx)),
                    }
                    // get_kind_seek on Cursor and on BufReader<Cursor> with small capacity
                    let mut cur = Cursor::new(data.clone());
                    match fastx::get_kind_seek(&mut cur) {
                        Ok(k) if k == kind && cur.position() == 0 => {}
                        other => fails.add(format!("get_kind_seek cursor {:?} pos={} {}", other, cur.position(), ctx)),
                    }
                    let mut br = BufReader::with_capacity(cap, Cursor::new(data.clone()));
                    match fastx::get_kind_seek(&mut br) {
                        Ok(k) if k == kind => {
                            if read_all(&mut br) != data {
                                fails.add(format!("get_kind_seek bufreader not rewound {}", ctx));
                            }
                        }
                        other => fails.add(format!("get_kind_seek bufreader {:?} {}", other, ctx)),
                    }
                    // EitherRecords: kind() before, in the middle, after
                    for when in 0..3 {
                        let mut er = EitherRecords::from(BufReader::with_capacity(
                            cap,
                            FragReader::new(&data, frag.clone()),
                        ));
                        if when == 0 {
                            match er.kind() {
                                Ok(k) if k == kind => {}
                                other => fails.add(format!("kind() before: {:?} {}", other, ctx)),
                            }
                        }
                        let mut got = Vec::new();
                        let mut items = 0;
                        while let Some(r) = er.next() {
                            items += 1;
                            if items > data.len() + 2 {
                                fails.add(format!("EitherRecords unbounded {}", ctx));
                                break;
                            }
                            match r {
                                Ok(rec) => {
                                    if FxRecord::kind(&rec) != kind {
                                        fails.add(format!("record kind mismatch {}", ctx));
                                    }
                                    got.push(either_to_rec(&rec));
                                }
                                Err(e) => fails.add(format!("EitherRecords error {:?} {}", e, ctx)),
                            }
                            if when == 1 {
                                match er.kind() {
                                    Ok(k) if k == kind => {}
                                    other => fails.add(format!("kind() during: {:?} {}", other, ctx)),
                                }
                            }
                        }
                        match er.kind() {
                            Ok(k) if k == kind => {}
                            other => fails.add(format!("kind() after: {:?} {}", other, ctx)),
                        }
                        if got != expect {
                            fails.add(format!(
                                "EitherRecords records differ {} data={} got={:?}",
                                ctx,
                                esc(&data),
                                got
                            ));
                        }
                    }
                }
            }
        }
    }
    eprintln!("t3: sniffer configurations={}", n);
    fails.finish("t3_sniffer");
}

#[test]
fn t3b_sniffer_degenerate_streams() {
    // none of these may panic or iterate without bound; report what happens
    let cases: Vec<(&str, Vec<u8>)> = vec![
        ("empty", vec![]),
        ("blank line then fastq", b"\n@id\nA\n+\n!\n".to_vec()),
        ("blank line then fasta", b"\n>id\nA\n".to_vec()),
        ("crlf blank then fasta", b"\r\n>id\nA\n".to_vec()),
        ("bom fastq", b"\xef\xbb\xbf@id\nA\n+\n!\n".to_vec()),
        ("bom fasta", b"\xef\xbb\xbf>id\nA\n".to_vec()),
        ("space fasta", b" >id\nA\n".to_vec()),
        ("only @", b"@".to_vec()),
        ("only >", b">".to_vec()),
        ("only newline", b"\n".to_vec()),
        ("0xff", b"\xff".to_vec()),
    ];
    for (name, data) in &cases {
        for frag in [Frag::All, Frag::Fixed(1), Frag::FirstAlone, Frag::Interrupting] {
            for cap in [1usize, 8192] {
                let mut er = EitherRecords::from(BufReader::with_capacity(cap, FragReader::new(data, frag.clone())));
                let k0 = er.kind().map_err(|e| e.kind());
                let mut items = Vec::new();
                for _ in 0..(data.len() + 5) {
                    match er.next() {
                        None => {
                            items.push("None".to_string());
                            break;
                        }
                        Some(Ok(r)) => items.push(format!("Ok({})", FxRecord::id(&r))),
                        Some(Err(_)) => items.push("Err".into()),
                    }
                }
                assert_eq!(items.last().map(|s| s.as_str()), Some("None"), "{} unbounded", name);
                let k1 = er.kind().map_err(|e| e.kind());
                if matches!(frag, Frag::All) && cap == 8192 {
                    eprintln!("t3b {:<24} kind-before={:?} items={:?} kind-after={:?}", name, k0, items, k1);
                }
                // without calling kind() first
                let mut er = EitherRecords::from(BufReader::with_capacity(cap, FragReader::new(data, frag.clone())));
                let mut cnt = 0;
                while let Some(_) = er.next() {
                    cnt += 1;
                    assert!(cnt <= data.len() + 2, "{} unbounded", name);
                }
                // get_kind_detailed must hand back an equivalent reader even for invalid data
                match fastx::get_kind_detailed(FragReader::new(data, frag.clone())) {
                    Ok((rd, _)) => assert_eq!(&read_all(rd), data, "{}", name),
                    Err((rd, e)) => {
                        assert!(data.is_empty(), "{} {:?}", name, e);
                        assert_eq!(read_all(rd).len(), 0);
                    }
                }
                let mut cur = Cursor::new(data.clone());
                let r = fastx::get_kind_seek(&mut cur);
                if !data.is_empty() {
                    assert_eq!(cur.position(), 0, "{} {:?}", name, r.map_err(|e| e.kind()));
                }
                // get_kind_seek in the middle of a stream
                let mut cur = Cursor::new([b"xx".to_vec(), data.clone()].concat());
                cur.seek(SeekFrom::Start(2)).unwrap();
                let _ = fastx::get_kind_seek(&mut cur);
                if !data.is_empty() {
                    assert_eq!(cur.position(), 2, "{}", name);
                }
            }
        }
    }
}

// ------------------------------------------------- 4. long lines / many records / non-ASCII

#[test]
fn t4_long_lines_small_capacity() {
    let mut rng = Rng::new(5);
    let n = 300_000usize;
    let seq: Vec<u8> = (0..n).map(|_| b"ACGT"[rng.below(4)]).collect();
    let mut qual: Vec<u8> = (0..n).map(|_| 33 + rng.below(94) as u8).collect();
    qual[0] = b'@';
    let long_desc: String = (0..100_000).map(|i| if i % 7 == 3 { ' ' } else { 'd' }).collect::<String>() + "é";
    let long_id: String = std::iter::repeat("日x").take(50_000).collect();
    let recs = vec![
        Rec {
            id: long_id.clone(),
            desc: Some(long_desc.clone()),
            seq: seq.clone(),
            qual: qual.clone(),
        },
        Rec {
            id: "b".into(),
            desc: None,
            seq: b"A".to_vec(),
            qual: b"+".to_vec(),
        },
        Rec {
            id: "c".into(),
            desc: Some("x".into()),
            seq: seq[..200_000].to_vec(),
            qual: qual[..200_000].to_vec(),
        },
    ];
    let fa_expect: Vec<Rec> = recs.iter().map(|r| Rec { qual: vec![], ..r.clone() }).collect();
    let fq = write_fastq(&recs);
    for (cap, frag) in [
        (1usize, Frag::Fixed(1)),
        (2, Frag::Fixed(3)),
        (3, Frag::Random(1)),
        (5, Frag::All),
        (7, Frag::Interrupting),
        (8192, Frag::Fixed(1)),
    ] {
        for data in [fq.clone(), to_crlf(&fq)] {
            let o = run_fq_records(cap, FragReader::new(&data, frag.clone()), 10);
            assert!(o.terminated);
            assert!(o.good == recs, "fastq long cap={} frag={:?}", cap, frag);
            let (o, _) = run_either(cap, FragReader::new(&data, frag.clone()), 10);
            assert!(o.good == recs, "either long cap={} frag={:?}", cap, frag);
        }
        for wrap in [None, Some(1), Some(3), Some(60), Some(299_999), Some(300_000), Some(300_001)] {
            let fa = write_fasta(&recs, wrap);
            for data in [fa.clone(), to_crlf(&fa)] {
                let o = run_fa_records(cap, FragReader::new(&data, frag.clone()), 10);
                assert!(o.terminated);
                assert!(o.good == fa_expect, "fasta long wrap={:?} cap={} frag={:?}", wrap, cap, frag);
            }
        }
    }
    // multi-line FASTQ with very many lines
    let ml = multiline_fastq(&recs, &mut rng, false, "\r\n");
    let o = run_fq_readloop(1, FragReader::new(&ml, Frag::Fixed(1)), 10);
    assert!(o.good == recs);
}

#[test]
fn t4b_many_records() {
    let mut rng = Rng::new(77);
    let recs: Vec<Rec> = (0..60_000).map(|_| gen_rec(&mut rng, 20)).collect();
    let fa_expect: Vec<Rec> = recs.iter().map(|r| Rec { qual: vec![], ..r.clone() }).collect();
    let fq = write_fastq(&recs);
    let fa = write_fasta(&recs, Some(7));
    for (cap, frag) in [(1usize, Frag::Fixed(1)), (3, Frag::Random(9)), (8192, Frag::All), (64, Frag::Interrupting)] {
        let o = run_fq_records(cap, FragReader::new(&fq, frag.clone()), 100_000);
        assert!(o.terminated && o.good == recs, "fq many cap={}", cap);
        let o = run_fq_readloop(cap, FragReader::new(&to_crlf(&fq), frag.clone()), 100_000);
        assert!(o.terminated && o.good == recs, "fq many crlf cap={}", cap);
        let o = run_fa_records(cap, FragReader::new(&fa, frag.clone()), 100_000);
        assert!(o.terminated && o.good == fa_expect, "fa many cap={}", cap);
        let (o, _) = run_either(cap, FragReader::new(&to_crlf(&fa), frag.clone()), 100_000);
        assert!(o.terminated && o.good == fa_expect, "either fa many cap={}", cap);
        let (o, _) = run_either(cap, FragReader::new(&fq, frag.clone()), 100_000);
        assert!(o.terminated && o.good == recs, "either fq many cap={}", cap);
    }
}

#[test]
fn t4c_non_ascii_split_everywhere() {
    let mut fails = Failures::new();
    let mut rng = Rng::new(1234);
    let mut n = 0usize;
    for _ in 0..400 {
        let mut recs = gen_list(&mut rng, 3, 10);
        for r in recs.iter_mut() {
            r.id = format!("{}日é🧬{}", r.id, ID_CHARS[rng.below(ID_CHARS.len())]);
            r.desc = Some(format!("ü 🧬\u{feff}日 {}", gen_id(&mut rng)));
        }
        let fa_expect: Vec<Rec> = recs.iter().map(|r| Rec { qual: vec![], ..r.clone() }).collect();
        let fq = write_fastq(&recs);
        let fa = write_fasta(&recs, Some(rng.range(1, 6)));
        for p in 0..=fq.len() {
            for cap in [1usize, 2, 3, 4, 8192] {
                n += 1;
                let o = run_fq_records(cap, FragReader::new(&fq, Frag::SplitAt(p)), fq.len());
                if o.good != recs {
                    fails.add(format!("fq split at {} cap {} data={}", p, cap, esc(&fq)));
                }
            }
            let (o, _) = run_either(2, FragReader::new(&fq, Frag::SplitAt(p)), fq.len());
            if o.good != recs {
                fails.add(format!("either fq split at {} data={}", p, esc(&fq)));
            }
        }
        for p in 0..=fa.len() {
            for cap in [1usize, 2, 3, 4, 8192] {
                n += 1;
                let o = run_fa_records(cap, FragReader::new(&fa, Frag::SplitAt(p)), fa.len());
                if o.good != fa_expect {
                    fails.add(format!("fa split at {} cap {} data={}", p, cap, esc(&fa)));
                }
            }
            let (o, _) = run_either(3, FragReader::new(&fa, Frag::SplitAt(p)), fa.len());
            if o.good != fa_expect {
                fails.add(format!("either fa split at {} data={}", p, esc(&fa)));
            }
        }
    }
    eprintln!("t4c: split configurations={}", n);
    fails.finish("t4c_non_ascii_split_everywhere");
}

// --------------------------------------- 5. round trip / re-wrap / CRLF / fragmentation (FASTA+FASTQ)

fn rewrap_fasta(recs: &[Rec], rng: &mut Rng, eol: &str) -> Vec<u8> {
    // arbitrary (irregular) positive line lengths
    let mut out = Vec::new();
    for r in recs {
        out.push(b'>');
        out.extend_from_slice(r.id.as_bytes());
        if let Some(d) = &r.desc {
            out.push(b' ');
            out.extend_from_slice(d.as_bytes());
        }
        out.extend_from_slice(eol.as_bytes());
        let mut p = 0;
        while p < r.seq.len() {
            let l = rng.range(1, 9).min(r.seq.len() - p);
            out.extend_from_slice(&r.seq[p..p + l]);
            out.extend_from_slice(eol.as_bytes());
            p += l;
        }
    }
    out
}

#[test]
fn t5_roundtrip_layouts() {
    let mut fails = Failures::new();
    let mut rng = Rng::new(555);
    let mut n = 0usize;
    for _ in 0..20_000 {
        let recs = gen_list(&mut rng, 5, 60);
        let fa_expect: Vec<Rec> = recs.iter().map(|r| Rec { qual: vec![], ..r.clone() }).collect();
        let wrap = if rng.chance(1, 8) { None } else { Some(rng.range(1, 70)) };
        let fa = write_fasta(&recs, wrap);
        let variants = [
            fa.clone(),
            to_crlf(&fa),
            rewrap_fasta(&recs, &mut rng, "\n"),
            rewrap_fasta(&recs, &mut rng, "\r\n"),
        ];
        for v in &variants {
            n += 1;
            let cap = pick_cap(&mut rng);
            let frag = pick_frag(&mut rng, v.len());
            let a = run_fa_records(cap, FragReader::new(v, frag.clone()), v.len());
            let b = run_fa_readloop(cap, FragReader::new(v, frag.clone()), v.len());
            let (c, kinds) = run_either(cap, FragReader::new(v, frag.clone()), v.len());
            if a.good != fa_expect || b.good != fa_expect || c.good != fa_expect || a.items != recs.len() {
                fails.add(format!("fasta roundtrip cap={} frag={:?} data={}", cap, frag, esc(v)));
            }
            if kinds.iter().any(|k| *k != Kind::FASTA) {
                fails.add("fasta sniffed as fastq".into());
            }
        }
        let fq = write_fastq(&recs);
        let variants = [
            fq.clone(),
            to_crlf(&fq),
            multiline_fastq(&recs, &mut rng, true, "\n"),
            multiline_fastq(&recs, &mut rng, false, "\r\n"),
        ];
        for v in &variants {
            n += 1;
            let cap = pick_cap(&mut rng);
            let frag = pick_frag(&mut rng, v.len());
            let a = run_fq_records(cap, FragReader::new(v, frag.clone()), v.len());
            let b = run_fq_readloop(cap, FragReader::new(v, frag.clone()), v.len());
            let (c, kinds) = run_either(cap, FragReader::new(v, frag.clone()), v.len());
            if a.good != recs || b.good != recs || c.good != recs || a.items != recs.len() {
                fails.add(format!("fastq roundtrip cap={} frag={:?} data={}", cap, frag, esc(v)));
            }
            if kinds.iter().any(|k| *k != Kind::FASTQ) {
                fails.add("fastq sniffed as fasta".into());
            }
        }
    }
    eprintln!("t5: layouts checked={}", n);
    fails.finish("t5_roundtrip_layouts");
}

// --------------------------------------------------- 6. borderline probes (reported, not asserted)

fn probe_fa(id: &str, desc: Option<&str>, seq: &[u8]) -> Vec<Rec> {
    let r = Rec {
        id: id.into(),
        desc: desc.map(|s| s.into()),
        seq: seq.to_vec(),
        qual: vec![],
    };
    let data = write_fasta(&[r], None);
    run_fa_records(8192, &data[..], 10).good
}

fn probe_fq(id: &str, desc: Option<&str>, seq: &[u8], qual: &[u8]) -> Vec<Rec> {
    let r = Rec {
        id: id.into(),
        desc: desc.map(|s| s.into()),
        seq: seq.to_vec(),
        qual: qual.to_vec(),
    };
    let data = write_fastq(&[r]);
    run_fq_records(8192, &data[..], 10).good
}

#[test]
fn t6_borderline_probes() {
    // ids containing characters that Unicode (but not ASCII) classifies as white space
    for ch in ["\u{a0}", "\u{85}", "\u{2003}", "\u{2028}", "\u{3000}", "\u{200b}", "\u{feff}", "\u{1f}", "\u{0}"] {
        let id = format!("a{}b", ch);
        let fa = probe_fa(&id, Some("d"), b"ACGT");
        let fq = probe_fq(&id, Some("d"), b"ACGT", b"!!!!");
        eprintln!(
            "t6 id with U+{:04X}: fasta id preserved={} (got id={:?} desc={:?}); fastq id preserved={}",
            ch.chars().next().unwrap() as u32,
            fa.len() == 1 && fa[0].id == id,
            fa.get(0).map(|r| r.id.clone()),
            fa.get(0).map(|r| r.desc.clone()),
            fq.len() == 1 && fq[0].id == id
        );
    }
    // interior CR / odd characters inside descriptions
    for d in ["a\rb", "a\u{2028}b", "a\u{b}b", "\tx", "  x", "a\u{0}b"] {
        let fa = probe_fa("id", Some(d), b"ACGT");
        let fq = probe_fq("id", Some(d), b"ACGT", b"!!!!");
        eprintln!(
            "t6 desc {:?}: fasta preserved={} fastq preserved={}",
            d,
            fa.len() == 1 && fa[0].desc.as_deref() == Some(d),
            fq.len() == 1 && fq[0].desc.as_deref() == Some(d)
        );
    }
    // ASCII control characters in sequences / qualities (0x1c-0x1f are not Unicode white space)
    for c in [0x00u8, 0x1c, 0x1f, 0x7f] {
        let seq = [b'A', c];
        let fa = probe_fa("id", None, &seq);
        let fq = probe_fq("id", None, &seq, b"!!");
        eprintln!(
            "t6 seq ending in 0x{:02x}: fasta preserved={} fastq preserved={}",
            c,
            fa.len() == 1 && fa[0].seq == seq,
            fq.len() == 1 && fq[0].seq == seq
        );
    }
}

// silence unused warnings for helpers only used in some configurations
#[allow(dead_code)]
fn _unused(b: &mut dyn BufRead) -> usize {
    b.fill_buf().map(|x| x.len()).unwrap_or(0)
}

// ------------------------------------- 7. FASTQ: only the sequence re-wrapped (outside the layout domain)

#[test]
fn t7_fastq_seq_only_rewrap_outside_domain() {
    // Sequence on 2 lines, qualities on 1 line: documented as unsupported by the library.
    let data = b"@a\nAC\nGT\n+\n!!!!\n@b\nA\n+\n!\n";
    let o = run_fq_records(8192, &data[..], 50);
    eprintln!("t7 seq-only rewrap: good records={:?} items={}", o.good, o.items);
    // Sequence on 2 lines, qualities on 3 lines, third quality line starts with '@':
    // a record that passes check() but never existed is produced.
    let data = b"@a\nACG\nTAC\n+\n!!\n!!\n@!\n@b\nA\n+\n!\n@c\nA\n+\n!\n";
    let o = run_fq_records(8192, &data[..], 50);
    eprintln!("t7 qual on more lines: good records={:?} items={}", o.good, o.items);
}

// ------------------------------------- 8. file based API, empty list

#[test]
fn t8_files_and_empty_list() {
    let dir = tempfile::tempdir().unwrap();
    let mut rng = Rng::new(8);
    let recs = gen_list(&mut rng, 5, 40);
    let fa_expect: Vec<Rec> = recs.iter().map(|r| Rec { qual: vec![], ..r.clone() }).collect();
    let fqp = dir.path().join("a.fq");
    let fap = dir.path().join("a.fa");
    let emp = dir.path().join("empty");
    {
        let mut w = fastq::Writer::to_file(&fqp).unwrap();
        for r in &recs {
            w.write(&r.id, r.desc.as_deref(), &r.seq, &r.qual).unwrap();
        }
        w.flush().unwrap();
        let mut w = fasta::Writer::to_file_with_capacity(1, &fap).unwrap();
        w.set_linewrap(Some(3));
        for r in &recs {
            w.write(&r.id, r.desc.as_deref(), &r.seq).unwrap();
        }
        w.flush().unwrap();
        let mut w = fastq::Writer::to_file(&emp).unwrap();
        w.flush().unwrap();
    }
    assert_eq!(fastx::get_kind_file(&fqp).unwrap(), Kind::FASTQ);
    assert_eq!(fastx::get_kind_file(&fap).unwrap(), Kind::FASTA);
    let got: Vec<Rec> = fastq::Reader::from_file(&fqp).unwrap().records().map(|r| fq_to_rec(&r.unwrap())).collect();
    assert_eq!(got, recs);
    let got: Vec<Rec> = fasta::Reader::from_file_with_capacity(1, &fap).unwrap().records().map(|r| fa_to_rec(&r.unwrap())).collect();
    assert_eq!(got, fa_expect);
    let got: Vec<Rec> = EitherRecords::from_file(&fqp).unwrap().map(|r| either_to_rec(&r.unwrap())).collect();
    assert_eq!(got, recs);
    let got: Vec<Rec> = EitherRecords::from_file(&fap).unwrap().map(|r| either_to_rec(&r.unwrap())).collect();
    assert_eq!(got, fa_expect);
    // empty list
    let e = fastx::get_kind_file(&emp).map_err(|e| e.kind());
    eprintln!("t8 empty list: get_kind_file={:?}", e);
    assert_eq!(fastq::Reader::from_file(&emp).unwrap().records().count(), 0);
    assert_eq!(fasta::Reader::from_file(&emp).unwrap().records().count(), 0);
    let mut er = EitherRecords::from_file(&emp).unwrap();
    assert!(er.next().is_none());
    eprintln!("t8 empty list: EitherRecords.kind()={:?}", er.kind().map_err(|e| e.kind()));
}
