//! Second audit of fasta::{Index, IndexedReader, IndexedReaderIterator}.
//! Everything goes through the public API; the library source is not modified.

use bio::io::fasta::{Index, IndexedReader, Sequence};
use std::cell::Cell;
use std::io::{self, Cursor, Read, Seek, SeekFrom};
use std::panic::{catch_unwind, AssertUnwindSafe};

// ---------------------------------------------------------------- helpers

struct Rng(u64);
impl Rng {
    fn new(seed: u64) -> Self {
        Rng(seed.wrapping_mul(0x9E37_79B9_7F4A_7C15) ^ 0xD1B5_4A32_D192_ED03)
    }
    fn next(&mut self) -> u64 {
        // splitmix64
        self.0 = self.0.wrapping_add(0x9E37_79B9_7F4A_7C15);
        let mut z = self.0;
        z = (z ^ (z >> 30)).wrapping_mul(0xBF58_476D_1CE4_E5B9);
        z = (z ^ (z >> 27)).wrapping_mul(0x94D0_49BB_1331_11EB);
        z ^ (z >> 31)
    }
    fn below(&mut self, n: u64) -> u64 {
        self.next() % n
    }
    fn range(&mut self, lo: u64, hi_incl: u64) -> u64 {
        lo + self.below(hi_incl - lo + 1)
    }
}

const ALPHA: &[u8] = b"ABCDEFGHIJKLMNOPQRSTUVWXYZabcdefghijklmnopqrstuvwxyz";

fn rand_seq(rng: &mut Rng, len: usize) -> Vec<u8> {
    (0..len).map(|_| ALPHA[rng.below(52) as usize]).collect()
}

/// Read+Seek wrapper that returns at most pattern[i] bytes for the i-th read() call
/// (cycling); an empty pattern does not fragment.
struct Frag<'a> {
    inner: Cursor<&'a [u8]>,
    pattern: Vec<usize>,
    i: usize,
    reads: u64,
}
impl<'a> Frag<'a> {
    fn new(data: &'a [u8], pattern: &[usize]) -> Self {
        Frag {
            inner: Cursor::new(data),
            pattern: pattern.to_vec(),
            i: 0,
            reads: 0,
        }
    }
}
impl<'a> Read for Frag<'a> {
    fn read(&mut self, buf: &mut [u8]) -> io::Result<usize> {
        self.reads += 1;
        if buf.is_empty() {
            return Ok(0);
        }
        let n = if self.pattern.is_empty() {
            buf.len()
        } else {
            let c = self.pattern[self.i % self.pattern.len()];
            self.i += 1;
            c.min(buf.len())
        };
        self.inner.read(&mut buf[..n])
    }
}
impl<'a> Seek for Frag<'a> {
    fn seek(&mut self, pos: SeekFrom) -> io::Result<u64> {
        self.inner.seek(pos)
    }
}

#[derive(Clone)]
struct Rec {
    name: String,
    desc: Option<String>,
    seq: Vec<u8>,
    w: usize,
}

#[derive(Clone, Copy, Debug, PartialEq)]
enum Conv {
    /// what `samtools faidx` writes: widths of the first line
    Samtools,
    /// the declared width even when the only line is shorter
    Declared,
}

struct RecInfo {
    name: String,
    seq: Vec<u8>,
    /// file position of every base
    pos_last: Vec<u64>,
    fai_row: String,
}

struct Built {
    file: Vec<u8>,
    rows: Vec<String>,
    recs: Vec<RecInfo>,
}
impl Built {
    fn fai(&self) -> String {
        let mut s = String::new();
        for r in &self.rows {
            s.push_str(r);
            s.push('\n');
        }
        s
    }
}

fn build(recs: &[Rec], term: &str, last_term: bool, conv: Conv) -> Built {
    let tl = term.len() as u64;
    let mut file = Vec::new();
    let mut infos = Vec::new();
    let mut rows = Vec::new();
    for (ri, r) in recs.iter().enumerate() {
        let is_last = ri + 1 == recs.len();
        file.push(b'>');
        file.extend_from_slice(r.name.as_bytes());
        if let Some(d) = &r.desc {
            file.push(b' ');
            file.extend_from_slice(d.as_bytes());
        }
        file.extend_from_slice(term.as_bytes());
        let offset = file.len() as u64;
        let len = r.seq.len();
        let mut pos = Vec::with_capacity(len);
        let nlines = if len == 0 { 0 } else { (len + r.w - 1) / r.w };
        let mut single_unterminated = false;
        for (li, line) in r.seq.chunks(r.w).enumerate() {
            for b in line {
                pos.push(file.len() as u64);
                file.push(*b);
            }
            let last_line = li + 1 == nlines;
            if last_line && is_last && !last_term {
                if nlines == 1 {
                    single_unterminated = true;
                }
            } else {
                file.extend_from_slice(term.as_bytes());
            }
        }
        let (lb, lbytes) = if len == 0 {
            (0u64, 0u64)
        } else {
            match conv {
                Conv::Samtools => {
                    let lb = r.w.min(len) as u64;
                    if single_unterminated {
                        (lb, lb)
                    } else {
                        (lb, lb + tl)
                    }
                }
                Conv::Declared => (r.w as u64, r.w as u64 + tl),
            }
        };
        let row = format!("{}\t{}\t{}\t{}\t{}", r.name, len, offset, lb, lbytes);
        rows.push(row.clone());
        infos.push(RecInfo {
            name: r.name.clone(),
            seq: r.seq.clone(),
            pos_last: pos,
            fai_row: row,
        });
    }
    Built {
        file,
        rows,
        recs: infos,
    }
}

#[derive(Default)]
struct Report {
    cases: u64,
    fails: u64,
    known: u64,
    msgs: Vec<String>,
}
impl Report {
    fn fail(&mut self, m: String) {
        self.fails += 1;
        if self.msgs.len() < 40 {
            self.msgs.push(m);
        }
    }
    fn finish(self, what: &str) {
        println!(
            "[{}] cases={} fails={} known-accepted={}",
            what, self.cases, self.fails, self.known
        );
        for m in &self.msgs {
            println!("  FAIL: {}", m);
        }
        assert_eq!(self.fails, 0, "{}: {} failures", what, self.fails);
    }
}

fn show(b: &[u8]) -> String {
    if b.len() > 60 {
        format!(
            "{:?}..(len {})",
            String::from_utf8_lossy(&b[..60]),
            b.len()
        )
    } else {
        format!("{:?}", String::from_utf8_lossy(b))
    }
}

/// `complete`: every byte of the slice is present in the (possibly truncated) file.
/// `avail`: number of leading bases of the slice that are present.
fn check_read<R: Read + Seek>(
    rd: &mut IndexedReader<R>,
    buf: &mut Vec<u8>,
    slice: &[u8],
    complete: bool,
) -> Result<(), String> {
    buf.clear();
    buf.extend_from_slice(b"#stale#stale#");
    match rd.read(buf) {
        Ok(()) => {
            if !complete {
                Err(format!(
                    "read() Ok({}) although bytes are missing, want Err (slice {})",
                    show(buf),
                    show(slice)
                ))
            } else if buf.as_slice() != slice {
                Err(format!("read() Ok({}) want {}", show(buf), show(slice)))
            } else {
                Ok(())
            }
        }
        Err(e) => {
            if complete {
                Err(format!("read() Err({}) want {}", e, show(slice)))
            } else {
                Ok(())
            }
        }
    }
}

fn check_iter<R: Read + Seek>(
    rd: &mut IndexedReader<R>,
    slice: &[u8],
    complete: bool,
    avail: usize,
) -> Result<(), String> {
    match rd.read_iter() {
        Err(e) => {
            if complete {
                Err(format!("read_iter() Err({}) want {}", e, show(slice)))
            } else {
                Ok(())
            }
        }
        Ok(mut it) => {
            let sh = it.size_hint();
            if sh != (slice.len(), Some(slice.len())) {
                return Err(format!("size_hint {:?} want {}", sh, slice.len()));
            }
            let mut got = Vec::new();
            let mut errs = 0usize;
            let mut items = 0usize;
            let mut ok_after_err = false;
            while let Some(item) = it.next() {
                items += 1;
                if items > slice.len() + 3 {
                    return Err(format!(
                        "iterator yields more than {} items (requested {})",
                        items - 1,
                        slice.len()
                    ));
                }
                match item {
                    Ok(b) => {
                        if errs > 0 {
                            ok_after_err = true;
                        }
                        got.push(b)
                    }
                    Err(_) => errs += 1,
                }
                let sh = it.size_hint();
                if errs == 0 && sh != (slice.len() - got.len(), Some(slice.len() - got.len())) {
                    return Err(format!(
                        "size_hint {:?} after {} items of {}",
                        sh,
                        got.len(),
                        slice.len()
                    ));
                }
            }
            if it.next().is_some() || it.next().is_some() {
                return Err("iterator resumes after None".to_string());
            }
            if ok_after_err {
                return Err(format!("iterator yields Ok after Err; got {}", show(&got)));
            }
            if errs > 1 {
                return Err("iterator yields several Err".to_string());
            }
            if complete {
                if errs != 0 || got.as_slice() != slice {
                    return Err(format!(
                        "iter got {} (+{} Err) want {}",
                        show(&got),
                        errs,
                        show(slice)
                    ));
                }
            } else {
                if errs != 1 {
                    return Err(format!(
                        "iter on missing bytes ended without Err: got {} of slice {}",
                        show(&got),
                        show(slice)
                    ));
                }
                if got.len() > avail || got.as_slice() != &slice[..got.len()] {
                    return Err(format!(
                        "iter on missing bytes yielded wrong prefix {} of slice {} (avail {})",
                        show(&got),
                        show(slice),
                        avail
                    ));
                }
            }
            Ok(())
        }
    }
}

thread_local! {
    static LAST: Cell<[u64; 6]> = Cell::new([0; 6]);
}

// ------------------------------------------------------- 1. truncation

fn trunc_sweep(b: &Built, label: &str, rep: &mut Report) {
    let index = Index::new(b.fai().as_bytes()).expect("fai parses");
    let patterns: [&[usize]; 6] = [&[], &[1], &[2], &[3], &[1, 3, 2, 2, 1, 5], &[2]];
    for t in 0..=b.file.len() {
        let data = &b.file[..t];
        for (pi, pat) in patterns.iter().enumerate() {
            let fresh_each = pi == 5;
            let res = catch_unwind(AssertUnwindSafe(|| {
                let mut local = Report::default();
                let mut rd = IndexedReader::with_index(Frag::new(data, pat), index.clone());
                let mut buf = Vec::new();
                let mut flip = 0u64;
                for (ri, r) in b.recs.iter().enumerate() {
                    let len = r.seq.len();
                    for s in 0..=len {
                        for e in s..=len {
                            LAST.with(|l| {
                                l.set([t as u64, pi as u64, ri as u64, s as u64, e as u64, 0])
                            });
                            if fresh_each {
                                rd = IndexedReader::with_index(
                                    Frag::new(data, pat),
                                    index.clone(),
                                );
                            }
                            let slice = &r.seq[s..e];
                            let avail = (s..e).take_while(|&i| (r.pos_last[i] as usize) < t).count();
                            let complete = avail == e - s;
                            flip += 1;
                            let fr = if s == 0 && e == len && flip % 2 == 0 {
                                if flip % 4 == 0 {
                                    rd.fetch_all(&r.name)
                                } else {
                                    rd.fetch_all_by_rid(ri)
                                }
                            } else if flip % 3 == 0 {
                                rd.fetch_by_rid(ri, s as u64, e as u64)
                            } else {
                                rd.fetch(&r.name, s as u64, e as u64)
                            };
                            if let Err(e2) = fr {
                                local.fail(format!(
                                    "{} T={} pat={:?} rec={} [{},{}): fetch Err({})",
                                    label, t, pat, ri, s, e, e2
                                ));
                                continue;
                            }
                            let order = flip % 2 == 0;
                            for k in 0..2 {
                                local.cases += 1;
                                let r1 = if (k == 0) == order {
                                    check_read(&mut rd, &mut buf, slice, complete)
                                } else {
                                    check_iter(&mut rd, slice, complete, avail)
                                };
                                if let Err(m) = r1 {
                                    local.fail(format!(
                                        "{} T={}/{} pat={:?} rec={} [{},{}): {}",
                                        label,
                                        t,
                                        b.file.len(),
                                        pat,
                                        ri,
                                        s,
                                        e,
                                        m
                                    ));
                                }
                            }
                        }
                    }
                }
                local
            }));
            match res {
                Ok(local) => {
                    rep.cases += local.cases;
                    rep.fails += local.fails;
                    for m in local.msgs {
                        if rep.msgs.len() < 40 {
                            rep.msgs.push(m);
                        }
                    }
                }
                Err(_) => {
                    let l = LAST.with(|l| l.get());
                    rep.fail(format!(
                        "{} PANIC at T={} pat#{} rec={} [{},{}) file={} fai={:?}",
                        label,
                        l[0],
                        l[1],
                        l[2],
                        l[3],
                        l[4],
                        show(&b.file),
                        b.fai()
                    ));
                }
            }
        }
    }
}

#[test]
fn t1_truncation_single_record() {
    let mut rep = Report::default();
    let mut rng = Rng::new(1);
    let mut files = 0;
    for term in ["\n", "\r\n"] {
        for last_term in [true, false] {
            for conv in [Conv::Samtools, Conv::Declared] {
                for w in 1..=9usize {
                    let mut lens = vec![0, 1, w - 1, w, w + 1, 2 * w - 1, 2 * w, 2 * w + 1, 3 * w];
                    lens.sort();
                    lens.dedup();
                    for len in lens {
                        let recs = vec![Rec {
                            name: "r".into(),
                            desc: None,
                            seq: rand_seq(&mut rng, len),
                            w,
                        }];
                        let b = build(&recs, term, last_term, conv);
                        files += 1;
                        let label = format!(
                            "single term={:?} last_term={} conv={:?} w={} len={} file={} fai={:?}",
                            term,
                            last_term,
                            conv,
                            w,
                            len,
                            show(&b.file),
                            b.fai()
                        );
                        trunc_sweep(&b, &label, &mut rep);
                    }
                }
            }
        }
    }
    println!("files: {}", files);
    rep.finish("t1_truncation_single_record");
}

#[test]
fn t1_truncation_multi_record() {
    let mut rep = Report::default();
    let mut rng = Rng::new(2);
    let mut files = 0;
    for term in ["\n", "\r\n"] {
        for last_term in [true, false] {
            for conv in [Conv::Samtools, Conv::Declared] {
                for n in 0..150 {
                    let nrec = 2 + (n % 2);
                    let names = ["a", "ab", "abc"];
                    let mut recs = vec![];
                    for i in 0..nrec {
                        let w = rng.range(1, 9) as usize;
                        let maxlen = (3 * w + 1).min(16);
                        // favour boundary lengths
                        let len = match rng.below(6) {
                            0 => 0,
                            1 => w.min(maxlen),
                            2 => (2 * w).min(maxlen),
                            3 => (w + 1).min(maxlen),
                            _ => rng.range(0, maxlen as u64) as usize,
                        };
                        recs.push(Rec {
                            name: names[i].into(),
                            desc: if rng.below(2) == 0 {
                                Some("x y".into())
                            } else {
                                None
                            },
                            seq: rand_seq(&mut rng, len),
                            w,
                        });
                    }
                    let b = build(&recs, term, last_term, conv);
                    files += 1;
                    let label = format!(
                        "multi term={:?} last_term={} conv={:?} file={} fai={:?}",
                        term,
                        last_term,
                        conv,
                        show(&b.file),
                        b.fai()
                    );
                    trunc_sweep(&b, &label, &mut rep);
                }
            }
        }
    }
    println!("files: {}", files);
    rep.finish("t1_truncation_multi_record");
}

// ---------------------------------------------------- 2. random histories

#[derive(Clone, Copy, Debug, PartialEq)]
enum St {
    Nothing,
    Valid(usize, usize, usize),
    Invalid,
}

#[test]
fn t2_random_histories() {
    let pool = [
        "c", "ch", "chr", "chr1", "chr10", "chr100", "chr1_", "chr1_random", "chr11", "chr2",
        "chrX", "chrXY", "X", "XY", "1", "10", "11", "2", "chrM", "chrMT", "chr1.1", "chr1|a",
        "CHR1", "chr01",
    ];
    let chunk_choices = [1usize, 2, 3, 5, 7, 64, 4096, 10000];
    let mut rep = Report::default();
    let mut ops_total = 0u64;
    for h in 0..5000u64 {
        let mut rng = Rng::new(1000 + h);
        let nrec = if h % 5 == 0 {
            rng.range(1, 3)
        } else {
            rng.range(5, 20)
        } as usize;
        // choose names
        let mut names: Vec<&str> = pool.to_vec();
        for i in (1..names.len()).rev() {
            let j = rng.below(i as u64 + 1) as usize;
            names.swap(i, j);
        }
        let term = if rng.below(2) == 0 { "\n" } else { "\r\n" };
        let last_term = rng.below(2) == 0;
        let mut recs = vec![];
        for i in 0..nrec {
            let w = if rng.below(3) == 0 {
                rng.range(1, 4)
            } else {
                rng.range(1, 70)
            } as usize;
            let len = if rng.below(8) == 0 {
                0
            } else if rng.below(4) == 0 {
                (w as u64 * rng.range(1, 4)) as usize
            } else {
                rng.range(1, 200) as usize
            };
            recs.push(Rec {
                name: names[i].into(),
                desc: if rng.below(3) == 0 {
                    Some(format!("{} descr", names[(i + 1) % names.len()]))
                } else {
                    None
                },
                seq: rand_seq(&mut rng, len),
                w,
            });
        }
        let b = build(&recs, term, last_term, Conv::Samtools);
        // rid order = fai order; optionally shuffle rows
        let mut order: Vec<usize> = (0..nrec).collect();
        if rng.below(2) == 0 {
            for i in (1..nrec).rev() {
                let j = rng.below(i as u64 + 1) as usize;
                order.swap(i, j);
            }
        }
        let mut fai = String::new();
        for &o in &order {
            fai.push_str(&b.recs[o].fai_row);
            fai.push('\n');
        }
        let pat: Vec<usize> = if rng.below(5) == 0 {
            vec![]
        } else {
            (0..rng.range(1, 5))
                .map(|_| chunk_choices[rng.below(chunk_choices.len() as u64) as usize])
                .collect()
        };
        let frag = Frag::new(&b.file, &pat);
        let mut rd = if rng.below(2) == 0 {
            IndexedReader::new(frag, fai.as_bytes()).unwrap()
        } else {
            IndexedReader::with_index(frag, Index::new(fai.as_bytes()).unwrap())
        };
        let mut st = St::Nothing;
        let mut stale = false;
        let mut buf: Vec<u8> = Vec::new();
        let nops = rng.range(5, 30);
        let mut hist = Vec::new();
        let res = catch_unwind(AssertUnwindSafe(|| {
            let mut local = Report::default();
            for _ in 0..nops {
                local.cases += 1;
                let rid = rng.below(nrec as u64) as usize; // rid in fai order
                let rec = &b.recs[order[rid]];
                let len = rec.seq.len();
                let op = rng.below(12);
                match op {
                    0 | 1 => {
                        let s = rng.range(0, len as u64) as usize;
                        let e = rng.range(s as u64, len as u64) as usize;
                        let r = if op == 0 {
                            hist.push(format!("fetch({:?},{},{})", rec.name, s, e));
                            rd.fetch(&rec.name, s as u64, e as u64)
                        } else {
                            hist.push(format!("fetch_by_rid({},{},{})", rid, s, e));
                            rd.fetch_by_rid(rid, s as u64, e as u64)
                        };
                        if r.is_err() {
                            local.fail(format!("valid fetch failed: {:?}", hist));
                        }
                        st = St::Valid(order[rid], s, e);
                        stale = false;
                    }
                    2 => {
                        hist.push(format!("fetch_all({:?})", rec.name));
                        if rd.fetch_all(&rec.name).is_err() {
                            local.fail(format!("fetch_all failed: {:?}", hist));
                        }
                        st = St::Valid(order[rid], 0, len);
                        stale = false;
                    }
                    3 => {
                        hist.push(format!("fetch_all_by_rid({})", rid));
                        if rd.fetch_all_by_rid(rid).is_err() {
                            local.fail(format!("fetch_all_by_rid failed: {:?}", hist));
                        }
                        st = St::Valid(order[rid], 0, len);
                        stale = false;
                    }
                    4 => {
                        // bad interval
                        let (s, e) = match rng.below(4) {
                            0 => (len as u64 + 1, len as u64 + 1),
                            1 => (0, len as u64 + 1 + rng.below(3)),
                            2 => (rng.range(1, len as u64 + 1), 0),
                            _ => (u64::MAX, u64::MAX),
                        };
                        let by_name = rng.below(2) == 0;
                        hist.push(format!("bad-interval fetch(rid {},{},{})", rid, s, e));
                        let r = if by_name {
                            rd.fetch(&rec.name, s, e)
                        } else {
                            rd.fetch_by_rid(rid, s, e)
                        };
                        if r.is_ok() {
                            st = St::Invalid;
                            stale = false;
                        } else {
                            stale = true;
                        }
                    }
                    5 => {
                        let r = match rng.below(5) {
                            0 => {
                                hist.push("fetch(unknown-suffix)".into());
                                rd.fetch(&format!("{}x", rec.name), 0, 0)
                            }
                            1 => {
                                hist.push("fetch(unknown-prefix)".into());
                                let n = &rec.name[..rec.name.len() - 1];
                                if names[..nrec].contains(&n) {
                                    rd.fetch("nope", 0, 0)
                                } else {
                                    rd.fetch(n, 0, 0)
                                }
                            }
                            2 => {
                                hist.push("fetch_by_rid(nrec)".into());
                                rd.fetch_by_rid(nrec, 0, 0)
                            }
                            3 => {
                                hist.push("fetch_all_by_rid(MAX)".into());
                                rd.fetch_all_by_rid(usize::MAX)
                            }
                            _ => {
                                hist.push("fetch_all(unknown with desc)".into());
                                rd.fetch_all(&format!("{} descr", rec.name))
                            }
                        };
                        if r.is_ok() {
                            local.fail(format!("unknown name/rid accepted: {:?}", hist));
                        }
                        stale = true;
                    }
                    6 | 7 | 8 => {
                        // read into reused, non-empty Vec
                        buf.clear();
                        let g = rng.below(300) as usize;
                        buf.extend(std::iter::repeat(b'?').take(g));
                        hist.push(format!("read(buf with {} bytes)", g));
                        let r = rd.read(&mut buf);
                        match (st, &r) {
                            (St::Nothing, Ok(())) | (St::Invalid, Ok(())) => {
                                if !stale {
                                    local.fail(format!("read Ok in state {:?}: {:?}", st, hist))
                                } else {
                                    local.known += 1;
                                }
                            }
                            (St::Nothing, Err(_)) | (St::Invalid, Err(_)) => {}
                            (St::Valid(ri, s, e), Ok(())) => {
                                if buf != b.recs[ri].seq[s..e] {
                                    local.fail(format!(
                                        "read got {} want {} : {:?}",
                                        show(&buf),
                                        show(&b.recs[ri].seq[s..e]),
                                        hist
                                    ));
                                }
                                if stale {
                                    local.known += 1;
                                }
                            }
                            (St::Valid(..), Err(er)) => {
                                if !stale {
                                    local.fail(format!("read Err({}) : {:?}", er, hist));
                                }
                            }
                        }
                    }
                    _ => {
                        let partial = op == 11;
                        let want: Option<&[u8]> = match st {
                            St::Valid(ri, s, e) => Some(&b.recs[ri].seq[s..e]),
                            _ => None,
                        };
                        let k = if partial {
                            rng.below(want.map(|w| w.len()).unwrap_or(0) as u64 + 1) as usize
                        } else {
                            usize::MAX
                        };
                        hist.push(format!("read_iter(take {})", k));
                        match (want, rd.read_iter()) {
                            (None, Ok(_)) => {
                                if !stale {
                                    local.fail(format!("read_iter Ok in state {:?}: {:?}", st, hist));
                                } else {
                                    local.known += 1;
                                }
                            }
                            (None, Err(_)) => {}
                            (Some(_), Err(er)) => {
                                if !stale {
                                    local.fail(format!("read_iter Err({}) : {:?}", er, hist));
                                }
                            }
                            (Some(w), Ok(mut it)) => {
                                if it.size_hint() != (w.len(), Some(w.len())) {
                                    local.fail(format!("size_hint {:?}: {:?}", it.size_hint(), hist));
                                }
                                let mut got = Vec::new();
                                let mut bad = false;
                                let mut n = 0;
                                while n < k {
                                    match it.next() {
                                        None => break,
                                        Some(Ok(x)) => got.push(x),
                                        Some(Err(_)) => {
                                            bad = true;
                                            break;
                                        }
                                    }
                                    n += 1;
                                    if got.len() > w.len() {
                                        break;
                                    }
                                }
                                let exp = if partial { &w[..k] } else { w };
                                if bad || got != exp {
                                    local.fail(format!(
                                        "read_iter got {} (err {}) want {} : {:?}",
                                        show(&got),
                                        bad,
                                        show(exp),
                                        hist
                                    ));
                                }
                                if stale {
                                    local.known += 1;
                                }
                            }
                        }
                    }
                }
            }
            local
        }));
        match res {
            Ok(local) => {
                ops_total += local.cases;
                rep.cases += local.cases;
                rep.fails += local.fails;
                rep.known += local.known;
                for m in local.msgs {
                    if rep.msgs.len() < 40 {
                        rep.msgs.push(format!("hist#{} fai={:?} pat={:?}: {}", h, fai, pat, m));
                    }
                }
            }
            Err(_) => rep.fail(format!("hist#{} PANIC", h)),
        }
    }
    println!("ops: {}", ops_total);
    rep.finish("t2_random_histories");
}

// --------------------------------------------------------- 3. large geometry

fn interesting_points(w: usize, len: usize) -> Vec<usize> {
    let mut p: Vec<i64> = vec![0, 1, len as i64 - 1, len as i64, len as i64 - w as i64];
    for k in [1i64, 2, 3, (len / w) as i64 - 1, (len / w) as i64] {
        for d in [-1i64, 0, 1] {
            p.push(k * w as i64 + d);
        }
    }
    for m in [512i64, 8192] {
        for k in [1i64, 2, 9, 16, (len as i64 / m) - 1, len as i64 / m] {
            for d in [-1i64, 0, 1] {
                p.push(k * m + d);
            }
        }
    }
    let mut v: Vec<usize> = p
        .into_iter()
        .filter(|&x| x >= 0 && x <= len as i64)
        .map(|x| x as usize)
        .collect();
    v.sort();
    v.dedup();
    v
}

#[test]
fn t3_large_geometry() {
    let mut rep = Report::default();
    let mut rng = Rng::new(3);
    let chunkings: [&[usize]; 6] = [&[], &[1], &[7], &[4096], &[8193], &[8193, 1, 7, 4096, 511]];
    for &w in &[511usize, 512, 513, 8191, 8192, 8193, 70_000] {
        for term in ["\n", "\r\n"] {
            for last_term in [true, false] {
                let len0 = 250_000 + rng.below(1000) as usize;
                // second record: an exact multiple of w, third: partial last line
                let len1 = ((300_000 + w - 1) / w) * w;
                let len2 = 300_000 + 1 + rng.below(400) as usize;
                let recs = vec![
                    Rec {
                        name: "big0".into(),
                        desc: Some("first".into()),
                        seq: rand_seq(&mut rng, len0),
                        w,
                    },
                    Rec {
                        name: "big1".into(),
                        desc: None,
                        seq: rand_seq(&mut rng, len1),
                        w,
                    },
                    Rec {
                        name: "big2".into(),
                        desc: None,
                        seq: rand_seq(&mut rng, len2),
                        w,
                    },
                ];
                let b = build(&recs, term, last_term, Conv::Samtools);
                let index = Index::new(b.fai().as_bytes()).unwrap();
                for (ci, pat) in chunkings.iter().enumerate() {
                    let small = ci == 1 || ci == 2;
                    let mut rd = IndexedReader::with_index(Frag::new(&b.file, pat), index.clone());
                    let mut buf = Vec::new();
                    for (ri, r) in b.recs.iter().enumerate() {
                        let len = r.seq.len();
                        let pts = interesting_points(w, len);
                        let mut whole_done = false;
                        for (ai, &s) in pts.iter().enumerate() {
                            for &e in &pts[ai..] {
                                let whole = s == 0 && e == len;
                                if small && e - s > 20_000 && !(whole && !whole_done && ri == 2) {
                                    continue;
                                }
                                if !small && e - s > 20_000 && (ai + e) % 3 != 0 && !whole {
                                    // subsample the very long intervals
                                    continue;
                                }
                                if whole {
                                    whole_done = true;
                                }
                                let label = || {
                                    format!(
                                        "w={} term={:?} last_term={} pat={:?} rec={} len={} [{},{})",
                                        w, term, last_term, pat, ri, len, s, e
                                    )
                                };
                                let rr = catch_unwind(AssertUnwindSafe(|| {
                                    let mut out = vec![];
                                    if whole {
                                        rd.fetch_all_by_rid(ri).unwrap();
                                    } else {
                                        rd.fetch(&r.name, s as u64, e as u64).unwrap();
                                    }
                                    if let Err(m) = check_read(&mut rd, &mut buf, &r.seq[s..e], true)
                                    {
                                        out.push(m);
                                    }
                                    if let Err(m) = check_iter(&mut rd, &r.seq[s..e], true, e - s) {
                                        out.push(m);
                                    }
                                    out
                                }));
                                rep.cases += 2;
                                match rr {
                                    Ok(v) => {
                                        for m in v {
                                            rep.fail(format!("{}: {}", label(), m));
                                        }
                                    }
                                    Err(_) => rep.fail(format!("{}: PANIC", label())),
                                }
                            }
                        }
                    }
                }
                // truncation at large geometry: cut at line/terminator/buffer boundaries
                let r = &b.recs[2];
                let len = r.seq.len();
                let first = r.pos_last[0] as usize;
                let mut cuts = vec![
                    first,
                    first + 1,
                    r.pos_last[w - 1] as usize,
                    r.pos_last[w - 1] as usize + 1,
                    r.pos_last[w - 1] as usize + 2,
                    r.pos_last[w] as usize,
                    r.pos_last[w] as usize + 1,
                    r.pos_last[len - 1] as usize,
                    r.pos_last[len - 1] as usize + 1,
                    (first / 8192 + 3) * 8192,
                    (first / 8192 + 3) * 8192 + 1,
                    (first / 8192 + 3) * 8192 - 1,
                ];
                cuts.retain(|&c| c <= b.file.len());
                for &t in &cuts {
                    for pat in [&[][..], &[4096][..], &[8193][..], &[7][..]] {
                        let mut rd =
                            IndexedReader::with_index(Frag::new(&b.file[..t], pat), index.clone());
                        let mut buf = Vec::new();
                        let pts = interesting_points(w, len);
                        for (ai, &s) in pts.iter().enumerate() {
                            for &e in &pts[ai..] {
                                if pat.len() == 1 && pat[0] == 7 && e - s > 20_000 {
                                    continue;
                                }
                                if e - s > 20_000 && (ai + e) % 4 != 0 {
                                    continue;
                                }
                                let avail = if e > s && (r.pos_last[e - 1] as usize) < t {
                                    e - s
                                } else {
                                    (s..e).take_while(|&i| (r.pos_last[i] as usize) < t).count()
                                };
                                let complete = avail == e - s;
                                rd.fetch("big2", s as u64, e as u64).unwrap();
                                rep.cases += 2;
                                let label = format!(
                                    "TRUNC w={} term={:?} T={} pat={:?} [{},{})",
                                    w, term, t, pat, s, e
                                );
                                if let Err(m) = check_read(&mut rd, &mut buf, &r.seq[s..e], complete)
                                {
                                    rep.fail(format!("{}: {}", label, m));
                                }
                                if let Err(m) = check_iter(&mut rd, &r.seq[s..e], complete, avail) {
                                    rep.fail(format!("{}: {}", label, m));
                                }
                            }
                        }
                    }
                }
            }
        }
    }
    rep.finish("t3_large_geometry");
}

// ------------------------------------------------------------------ 4. index

fn weird_recs(rng: &mut Rng) -> Vec<Rec> {
    let names = [
        "plain",
        "a\"b",
        "\"quoted\"",
        "\"open",
        "#hash",
        "a,b",
        "a;b",
        "séq",
        "染色体1",
        "x'y",
        "a\\b",
        "a|b:1-2",
        "plain2",
        "\"",
        "##",
        "true",
        "null",
        "NaN",
        "1e5",
        "-1",
        "0x10",
        "1.0",
        ">gt",
        "a=b&c",
        "e\u{301}",
        "\u{e9}",
    ];
    names
        .iter()
        .enumerate()
        .map(|(i, n)| Rec {
            name: n.to_string(),
            desc: if i % 2 == 0 {
                Some("d \"q\" #h".into())
            } else {
                None
            },
            seq: rand_seq(rng, [0usize, 1, 7, 8, 9, 30][i % 6]),
            w: [4usize, 1, 7, 8, 3, 10][i % 6],
        })
        .collect()
}

#[test]
fn t4_index_variants() {
    let mut rep = Report::default();
    let mut rng = Rng::new(4);
    for term in ["\n", "\r\n"] {
        let recs = weird_recs(&mut rng);
        let b = build(&recs, term, true, Conv::Samtools);
        let n = recs.len();
        // variants of the .fai text: (row terminator, final terminator present, order)
        let mut orders: Vec<Vec<usize>> = vec![(0..n).collect(), (0..n).rev().collect()];
        let mut o: Vec<usize> = (0..n).collect();
        for i in (1..n).rev() {
            let j = rng.below(i as u64 + 1) as usize;
            o.swap(i, j);
        }
        orders.push(o);
        for order in &orders {
            for fai_term in ["\n", "\r\n"] {
                for final_nl in [true, false] {
                    let mut fai = String::new();
                    for (k, &oi) in order.iter().enumerate() {
                        fai.push_str(&b.recs[oi].fai_row);
                        if k + 1 < n || final_nl {
                            fai.push_str(fai_term);
                        }
                    }
                    let label = format!(
                        "fasta term={:?} fai_term={:?} final_nl={} order={:?}",
                        term, fai_term, final_nl, order
                    );
                    let index = match Index::new(fai.as_bytes()) {
                        Ok(i) => i,
                        Err(e) => {
                            rep.fail(format!("{}: Index::new Err({})", label, e));
                            continue;
                        }
                    };
                    rep.cases += 1;
                    let want: Vec<Sequence> = order
                        .iter()
                        .map(|&oi| Sequence {
                            name: b.recs[oi].name.clone(),
                            len: b.recs[oi].seq.len() as u64,
                        })
                        .collect();
                    if index.sequences() != want {
                        rep.fail(format!(
                            "{}: sequences() = {:?} want {:?}",
                            label,
                            index.sequences(),
                            want
                        ));
                    }
                    let mut r_new =
                        IndexedReader::new(Frag::new(&b.file, &[3]), fai.as_bytes()).unwrap();
                    let mut r_idx =
                        IndexedReader::with_index(Frag::new(&b.file, &[5, 1]), index.clone());
                    if r_new.index != index || r_idx.index != index {
                        rep.fail(format!("{}: new/with_index index differs", label));
                    }
                    if r_new.index.sequences() != want {
                        rep.fail(format!("{}: reader.index.sequences() differs", label));
                    }
                    let mut buf = vec![];
                    for (rid, &oi) in order.iter().enumerate() {
                        let r = &b.recs[oi];
                        let len = r.seq.len();
                        for s in 0..=len {
                            for e in s..=len {
                                for which in 0..2 {
                                    let rd = if which == 0 { &mut r_new } else { &mut r_idx };
                                    for by_name in [true, false] {
                                        rep.cases += 1;
                                        let fr = if by_name {
                                            rd.fetch(&r.name, s as u64, e as u64)
                                        } else {
                                            rd.fetch_by_rid(rid, s as u64, e as u64)
                                        };
                                        if let Err(er) = fr {
                                            rep.fail(format!(
                                                "{}: fetch {:?}/{} Err({})",
                                                label, r.name, rid, er
                                            ));
                                            continue;
                                        }
                                        if let Err(m) =
                                            check_read(rd, &mut buf, &r.seq[s..e], true)
                                        {
                                            rep.fail(format!("{} {:?}: {}", label, r.name, m));
                                        }
                                        if let Err(m) = check_iter(rd, &r.seq[s..e], true, e - s) {
                                            rep.fail(format!("{} {:?}: {}", label, r.name, m));
                                        }
                                    }
                                }
                            }
                        }
                        // names that must be unknown
                        for bad in [
                            format!("{} ", r.name),
                            format!(" {}", r.name),
                            format!("{}\r", r.name),
                            r.name.to_uppercase() + "_",
                            r.name.trim_matches('"').to_string() + "~",
                        ] {
                            rep.cases += 1;
                            if r_new.fetch(&bad, 0, 0).is_ok() {
                                rep.fail(format!("{}: unknown name {:?} accepted", label, bad));
                            }
                        }
                    }
                    rep.cases += 2;
                    if r_new.fetch_by_rid(n, 0, 0).is_ok() || r_idx.fetch_all_by_rid(n).is_ok() {
                        rep.fail(format!("{}: rid {} accepted", label, n));
                    }
                }
            }
        }
    }
    rep.finish("t4_index_variants");
}

#[test]
fn t4_from_file_and_no_fetch() {
    use std::io::Write;
    let mut rep = Report::default();
    let mut rng = Rng::new(5);
    let dir = tempfile::tempdir().unwrap();
    for (k, term) in ["\n", "\r\n"].iter().enumerate() {
        for last_term in [true, false] {
            let recs = weird_recs(&mut rng);
            let b = build(&recs, term, last_term, Conv::Samtools);
            let path = dir.path().join(format!("f{}{}.fa", k, last_term));
            let mut fai_path = path.clone().into_os_string();
            fai_path.push(".fai");
            std::fs::File::create(&path).unwrap().write_all(&b.file).unwrap();
            // CRLF .fai without final newline
            let mut fai = b.rows.join("\r\n");
            if k == 0 {
                fai.push('\n');
            }
            std::fs::File::create(&fai_path)
                .unwrap()
                .write_all(fai.as_bytes())
                .unwrap();

            let idx_a = Index::with_fasta_file(&path).unwrap();
            let idx_b = Index::from_file(&fai_path).unwrap();
            let idx_c = Index::new(b.fai().as_bytes()).unwrap();
            rep.cases += 1;
            if idx_a != idx_b || idx_a != idx_c {
                rep.fail("Index::with_fasta_file / from_file / new differ".into());
            }
            // full file and every truncation of the real file
            for t in (0..=b.file.len()).rev() {
                let f = std::fs::OpenOptions::new().write(true).open(&path).unwrap();
                f.set_len(t as u64).unwrap();
                drop(f);
                let mut rd = IndexedReader::from_file(&path).unwrap();
                let mut buf = vec![];
                // reading without a fetch
                rep.cases += 2;
                if rd.read(&mut buf).is_ok() {
                    rep.fail("read without fetch is Ok".into());
                }
                if rd.read_iter().is_ok() {
                    rep.fail("read_iter without fetch is Ok".into());
                }
                for (ri, r) in b.recs.iter().enumerate() {
                    let len = r.seq.len();
                    for s in 0..=len {
                        for e in s..=len {
                            if len > 9 && (s + e + t) % 3 != 0 {
                                continue;
                            }
                            let avail =
                                (s..e).take_while(|&i| (r.pos_last[i] as usize) < t).count();
                            let complete = avail == e - s;
                            if (s + e) % 2 == 0 {
                                rd.fetch(&r.name, s as u64, e as u64).unwrap();
                            } else {
                                rd.fetch_by_rid(ri, s as u64, e as u64).unwrap();
                            }
                            rep.cases += 2;
                            let label = format!(
                                "from_file term={:?} last_term={} T={}/{} rec={:?} [{},{})",
                                term,
                                last_term,
                                t,
                                b.file.len(),
                                r.name,
                                s,
                                e
                            );
                            if let Err(m) = check_read(&mut rd, &mut buf, &r.seq[s..e], complete) {
                                rep.fail(format!("{}: {}", label, m));
                            }
                            if let Err(m) = check_iter(&mut rd, &r.seq[s..e], complete, avail) {
                                rep.fail(format!("{}: {}", label, m));
                            }
                        }
                    }
                }
            }
        }
    }
    rep.finish("t4_from_file_and_no_fetch");
}

/// The file shrinks (is truncated) between two operations on the SAME reader: data that the
/// BufReader may still hold must not be served for a different position.
#[test]
fn t5_invalid_requests_matrix() {
    let mut rep = Report::default();
    let mut rng = Rng::new(6);
    for term in ["\n", "\r\n"] {
        let recs = vec![
            Rec {
                name: "e".into(),
                desc: None,
                seq: vec![],
                w: 5,
            },
            Rec {
                name: "s".into(),
                desc: None,
                seq: rand_seq(&mut rng, 11),
                w: 4,
            },
            Rec {
                name: "t".into(),
                desc: None,
                seq: rand_seq(&mut rng, 8),
                w: 4,
            },
        ];
        let b = build(&recs, term, true, Conv::Samtools);
        let mut rd = IndexedReader::new(Frag::new(&b.file, &[2]), b.fai().as_bytes()).unwrap();
        let mut buf = vec![];
        for (ri, r) in b.recs.iter().enumerate() {
            let len = r.seq.len() as u64;
            let big = [len + 1, len + 2, 1 << 20, u64::MAX - 1, u64::MAX, 1 << 63];
            let mut reqs: Vec<(u64, u64)> = vec![];
            for s in 0..=len + 2 {
                for e in 0..=len + 2 {
                    if s > e || e > len {
                        reqs.push((s, e));
                    }
                }
            }
            for &x in &big {
                reqs.push((0, x));
                reqs.push((x, x));
                reqs.push((x, 0));
                reqs.push((len, x));
                reqs.push((x, len));
            }
            for (s, e) in reqs {
                for by_name in [true, false] {
                    rep.cases += 2;
                    let res = catch_unwind(AssertUnwindSafe(|| {
                        // start from a valid state so that "stale" data would be visible
                        rd.fetch_all("s").unwrap();
                        let fr = if by_name {
                            rd.fetch(&r.name, s, e)
                        } else {
                            rd.fetch_by_rid(ri, s, e)
                        };
                        if fr.is_err() {
                            return vec![]; // reported at fetch: fine
                        }
                        let mut out = vec![];
                        buf.clear();
                        buf.extend_from_slice(b"zz");
                        if rd.read(&mut buf).is_ok() {
                            out.push(format!("read Ok({})", show(&buf)));
                        }
                        match rd.read_iter() {
                            Err(_) => {}
                            Ok(it) => {
                                let v: Vec<_> = it.collect();
                                if !v.iter().any(|x| x.is_err()) {
                                    out.push(format!("read_iter yields {} Ok items", v.len()));
                                }
                            }
                        }
                        out
                    }));
                    match res {
                        Ok(v) => {
                            for m in v {
                                rep.fail(format!(
                                    "invalid interval rec={} len={} [{},{}): {}",
                                    ri, len, s, e, m
                                ));
                            }
                        }
                        Err(_) => rep.fail(format!(
                            "invalid interval rec={} len={} [{},{}): PANIC",
                            ri, len, s, e
                        )),
                    }
                }
            }
        }
    }
    rep.finish("t5_invalid_requests_matrix");
}

// ------------------------------------------------ 6. offsets beyond 32 bits

/// A synthetic FASTA of several GiB, generated on the fly: ">big\n" followed by lines of `w`
/// bases. Base i is ALPHA[hash(i) % 52].
struct Virtual {
    pos: u64,
    size: u64,
    hdr: Vec<u8>,
    w: u64,
    term: &'static [u8],
    chunk: usize,
}
fn vbase(i: u64) -> u8 {
    let mut z = i.wrapping_mul(0x9E37_79B9_7F4A_7C15);
    z ^= z >> 29;
    z = z.wrapping_mul(0xBF58_476D_1CE4_E5B9);
    z ^= z >> 32;
    ALPHA[(z % 52) as usize]
}
impl Read for Virtual {
    fn read(&mut self, buf: &mut [u8]) -> io::Result<usize> {
        let mut n = 0;
        let lbytes = self.w + self.term.len() as u64;
        while n < buf.len() && n < self.chunk && self.pos < self.size {
            let p = self.pos;
            buf[n] = if (p as usize) < self.hdr.len() {
                self.hdr[p as usize]
            } else {
                let q = p - self.hdr.len() as u64;
                let (line, col) = (q / lbytes, q % lbytes);
                if col < self.w {
                    vbase(line * self.w + col)
                } else {
                    self.term[(col - self.w) as usize]
                }
            };
            n += 1;
            self.pos += 1;
        }
        Ok(n)
    }
}
impl Seek for Virtual {
    fn seek(&mut self, pos: SeekFrom) -> io::Result<u64> {
        match pos {
            SeekFrom::Start(p) => self.pos = p,
            SeekFrom::Current(d) => self.pos = (self.pos as i64 + d) as u64,
            SeekFrom::End(d) => self.pos = (self.size as i64 + d) as u64,
        }
        Ok(self.pos)
    }
}

#[test]
fn t6_offsets_beyond_4gib() {
    let mut rep = Report::default();
    for (term, w) in [(&b"\n"[..], 60u64), (&b"\r\n"[..], 60), (&b"\n"[..], 8192), (&b"\r\n"[..], 70_000)] {
        let term: &'static [u8] = if term.len() == 1 { b"\n" } else { b"\r\n" };
        let lbytes = w + term.len() as u64;
        let len: u64 = 9_000_000_011;
        let hdr = b">big some description\n".to_vec();
        let full_lines = len / w;
        let size = hdr.len() as u64 + full_lines * lbytes + (len % w) + term.len() as u64;
        let fai = format!("big\t{}\t{}\t{}\t{}\n", len, hdr.len(), w, lbytes);
        for chunk in [usize::MAX, 7, 4096, 8193] {
            for trunc in [size, size - 1 - term.len() as u64, (1u64 << 32) + 5] {
                let v = Virtual { pos: 0, size: trunc, hdr: hdr.clone(), w, term, chunk };
                let mut rd = IndexedReader::new(v, fai.as_bytes()).unwrap();
                let mut buf = vec![];
                let mut starts = vec![0u64, len - 1, len - 300, len - w - 3];
                for c in [1u64 << 31, 1 << 32, (1 << 32) / lbytes * w, 1 << 33, 3 * (1u64 << 31)] {
                    for d in [-(w as i64) - 1, -1, 0, 1, w as i64] {
                        starts.push((c as i64 + d) as u64);
                    }
                }
                for &s in &starts {
                    for l in [0u64, 1, 2, w - 1, w, w + 1, 2 * w + 3, 1000] {
                        let e = (s + l).min(len);
                        let want: Vec<u8> = (s..e).map(vbase).collect();
                        let posb = |i: u64| hdr.len() as u64 + (i / w) * lbytes + i % w;
                        let avail = (s..e).take_while(|&i| posb(i) < trunc).count();
                        let complete = avail as u64 == e - s;
                        rd.fetch("big", s, e).unwrap();
                        rep.cases += 2;
                        let label = format!("virtual w={} term={:?} chunk={} size={} [{},{})", w, term, chunk, trunc, s, e);
                        if let Err(m) = check_read(&mut rd, &mut buf, &want, complete) {
                            rep.fail(format!("{}: {}", label, m));
                        }
                        if let Err(m) = check_iter(&mut rd, &want, complete, avail) {
                            rep.fail(format!("{}: {}", label, m));
                        }
                    }
                }
            }
        }
    }
    rep.finish("t6_offsets_beyond_4gib");
}

// ------------------------------------- 7. medium geometry, random, with truncation

#[test]
fn t7_medium_random_with_truncation() {
    let mut rep = Report::default();
    let chunk_choices = [1usize, 2, 3, 5, 7, 64, 511, 512, 513, 4096, 8191, 8192, 8193, 10000];
    for f in 0..600u64 {
        let mut rng = Rng::new(7000 + f);
        let term = if rng.below(2) == 0 { "\n" } else { "\r\n" };
        let last_term = rng.below(2) == 0;
        let nrec = rng.range(1, 4) as usize;
        let mut recs = vec![];
        for i in 0..nrec {
            let w = match rng.below(4) {
                0 => rng.range(500, 520),
                1 => rng.range(1, 100),
                2 => rng.range(100, 3000),
                _ => [255u64, 256, 257, 1023, 1024, 1025, 4095, 4096, 4097][rng.below(9) as usize],
            } as usize;
            let len = match rng.below(4) {
                0 => w * rng.range(1, 4) as usize,
                _ => rng.range(0, 12_000) as usize,
            };
            recs.push(Rec { name: format!("m{}", i), desc: None, seq: rand_seq(&mut rng, len), w });
        }
        let b = build(&recs, term, last_term, Conv::Samtools);
        let index = Index::new(b.fai().as_bytes()).unwrap();
        for _ in 0..6 {
            let t = match rng.below(3) {
                0 => b.file.len(),
                _ => rng.range(0, b.file.len() as u64) as usize,
            };
            let pat: Vec<usize> = if rng.below(5) == 0 {
                vec![]
            } else {
                (0..rng.range(1, 4)).map(|_| chunk_choices[rng.below(chunk_choices.len() as u64) as usize]).collect()
            };
            let mut rd = IndexedReader::with_index(Frag::new(&b.file[..t], &pat), index.clone());
            let mut buf = vec![];
            for _ in 0..60 {
                let ri = rng.below(nrec as u64) as usize;
                let r = &b.recs[ri];
                let len = r.seq.len();
                let w = recs[ri].w;
                let pick = |rng: &mut Rng| -> usize {
                    let x = match rng.below(3) {
                        0 => rng.range(0, len as u64) as i64,
                        1 => (rng.range(0, (len / w) as u64 + 1) * w as u64) as i64 + rng.range(0, 2) as i64 - 1,
                        _ => (rng.range(0, (len / 512) as u64 + 1) * 512) as i64 + rng.range(0, 2) as i64 - 1,
                    };
                    x.clamp(0, len as i64) as usize
                };
                let (mut s, mut e) = (pick(&mut rng), pick(&mut rng));
                if s > e { std::mem::swap(&mut s, &mut e); }
                let avail = (s..e).take_while(|&i| (r.pos_last[i] as usize) < t).count();
                let complete = avail == e - s;
                rd.fetch_by_rid(ri, s as u64, e as u64).unwrap();
                rep.cases += 2;
                let label = format!("medium f={} term={:?} w={} len={} T={}/{} pat={:?} rec={} [{},{})", f, term, w, len, t, b.file.len(), pat, ri, s, e);
                let res = catch_unwind(AssertUnwindSafe(|| {
                    let mut out = vec![];
                    if let Err(m) = check_read(&mut rd, &mut buf, &r.seq[s..e], complete) { out.push(m); }
                    if let Err(m) = check_iter(&mut rd, &r.seq[s..e], complete, avail) { out.push(m); }
                    out
                }));
                match res {
                    Ok(v) => for m in v { rep.fail(format!("{}: {}", label, m)); },
                    Err(_) => rep.fail(format!("{}: PANIC", label)),
                }
            }
        }
    }
    rep.finish("t7_medium_random_with_truncation");
}

// ---------------------------------------------------------- harness self-check

/// The checkers must notice shifted / short data: an index whose offset is off by one, and a
/// "complete" expectation on a truncated file, must both be flagged.
#[test]
fn t0_harness_detects_shift_and_truncation() {
    let mut rng = Rng::new(99);
    let recs = vec![Rec { name: "r".into(), desc: None, seq: rand_seq(&mut rng, 20), w: 6 }];
    let b = build(&recs, "\n", true, Conv::Samtools);
    let bad_fai = "r\t20\t4\t6\t7\n"; // true offset is 3
    let mut rd = IndexedReader::new(Frag::new(&b.file, &[2]), bad_fai.as_bytes()).unwrap();
    let mut buf = vec![];
    rd.fetch("r", 2, 15).unwrap();
    assert!(check_read(&mut rd, &mut buf, &b.recs[0].seq[2..15], true).is_err());
    assert!(check_iter(&mut rd, &b.recs[0].seq[2..15], true, 13).is_err());
    let mut rd = IndexedReader::new(Frag::new(&b.file[..10], &[2]), b.fai().as_bytes()).unwrap();
    rd.fetch("r", 2, 15).unwrap();
    assert!(check_read(&mut rd, &mut buf, &b.recs[0].seq[2..15], true).is_err());
    assert!(check_iter(&mut rd, &b.recs[0].seq[2..15], true, 13).is_err());
    assert!(check_read(&mut rd, &mut buf, &b.recs[0].seq[2..15], false).is_ok());
    assert!(check_iter(&mut rd, &b.recs[0].seq[2..15], false, 6).is_ok());
}

/// Every odd name once as the FIRST row of the .fai (BOM stripping, comment handling, quote
/// handling of the csv reader apply to the start of the input), plus blank lines around rows.
#[test]
fn t4b_every_name_first_row() {
    let mut rep = Report::default();
    let mut rng = Rng::new(44);
    let recs = weird_recs(&mut rng);
    let b = build(&recs, "\r\n", false, Conv::Samtools);
    let n = recs.len();
    for first in 0..n {
        for fai_term in ["\n", "\r\n"] {
            for (lead, trail) in [("", ""), ("", "\n\n"), ("\n", "\n")] {
                let order: Vec<usize> = (0..n).map(|k| (k + first) % n).collect();
                let rows: Vec<&str> = order.iter().map(|&o| b.recs[o].fai_row.as_str()).collect();
                let fai = format!("{}{}{}", lead, rows.join(fai_term), trail.replace('\n', fai_term));
                let mut rd = match IndexedReader::new(Frag::new(&b.file, &[3, 1]), fai.as_bytes()) {
                    Ok(r) => r,
                    Err(e) => {
                        rep.fail(format!("first={:?}: new Err({})", b.recs[first].name, e));
                        continue;
                    }
                };
                let names: Vec<String> = rd.index.sequences().into_iter().map(|s| s.name).collect();
                let want: Vec<String> = order.iter().map(|&o| b.recs[o].name.clone()).collect();
                rep.cases += 1;
                if names != want {
                    rep.fail(format!(
                        "first={:?} fai_term={:?} lead={:?}: sequences() names {:?} want {:?}",
                        b.recs[first].name, fai_term, lead, names, want
                    ));
                }
                let mut buf = vec![];
                for (rid, &o) in order.iter().enumerate() {
                    let r = &b.recs[o];
                    rep.cases += 2;
                    match rd.fetch_all(&r.name) {
                        Err(e) => rep.fail(format!(
                            "first={:?} fai_term={:?} lead={:?}: fetch_all({:?}) Err({})",
                            b.recs[first].name, fai_term, lead, r.name, e
                        )),
                        Ok(()) => {
                            if let Err(m) = check_read(&mut rd, &mut buf, &r.seq, true) {
                                rep.fail(format!("{:?}: {}", r.name, m));
                            }
                        }
                    }
                    rd.fetch_all_by_rid(rid).unwrap();
                    if let Err(m) = check_iter(&mut rd, &r.seq, true, r.seq.len()) {
                        rep.fail(format!("{:?} by rid: {}", r.name, m));
                    }
                }
            }
        }
    }
    rep.finish("t4b_every_name_first_row");
}

// ------------------------------------------------------------------ finding V1

/// BORDERLINE. A sequence name that starts with U+FEFF, when it is the FIRST row of the .fai:
/// the csv reader strips the three bytes EF BB BF as a byte order mark, so the name in the index
/// is "bom" instead of "\u{feff}bom". This test asserts the property and FAILS on the current
/// code.
#[test]
fn v1_first_fai_name_starting_with_feff() {
    let name = "\u{feff}bom";
    let fasta = format!(">{}\nACGT\nAC\n>z\nTT\n", name);
    let fai = format!("{}\t6\t8\t4\t5\nz\t2\t19\t2\t3\n", name);
    let mut rd = IndexedReader::new(Cursor::new(fasta.as_bytes()), fai.as_bytes()).unwrap();
    let seqs = rd.index.sequences();
    let by_name = rd.fetch(name, 1, 5);
    let stripped = rd.fetch("bom", 1, 5);
    println!(
        "sequences()[0].name = {:?}; fetch({:?}) = {:?}; fetch(\"bom\") = {:?}",
        seqs[0].name, name, by_name, stripped
    );
    // the same row in second position is read correctly
    let fai2 = format!("z\t2\t19\t2\t3\n{}\t6\t8\t4\t5\n", name);
    let mut rd2 = IndexedReader::new(Cursor::new(fasta.as_bytes()), fai2.as_bytes()).unwrap();
    assert!(rd2.fetch(name, 1, 5).is_ok());
    let mut v = vec![];
    rd2.read(&mut v).unwrap();
    assert_eq!(v, b"CGTA");
    assert_eq!(seqs[0].name, name, "Index::sequences() lost the first 3 bytes of the name");
    assert!(by_name.is_ok(), "fetch by the real name fails");
    assert!(stripped.is_err(), "a name that is not in the file is accepted");
}
