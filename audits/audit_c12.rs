// Audit of bio::io::fasta::{Index, IndexedReader, IndexedReaderIterator}
// Tests named `viol_*` assert the behaviour the PROPERTY requires; they FAIL when the
// library violates the property. Tests named `ok_*` are candidates that turned out fine.

use bio::io::fasta::{Index, IndexedReader};
use std::io::{self, Cursor, Read, Seek, SeekFrom};
use std::panic::{catch_unwind, AssertUnwindSafe};

// ---------- helpers ----------

/// Read+Seek wrapper that returns at most `chunk` bytes per read and optionally
/// returns ErrorKind::Interrupted on every `intr_every`-th call.
struct Frag {
    inner: Cursor<Vec<u8>>,
    chunk: usize,
    intr_every: usize,
    calls: usize,
}
impl Frag {
    fn new(data: Vec<u8>, chunk: usize, intr_every: usize) -> Self {
        Frag {
            inner: Cursor::new(data),
            chunk,
            intr_every,
            calls: 0,
        }
    }
}
impl Read for Frag {
    fn read(&mut self, buf: &mut [u8]) -> io::Result<usize> {
        self.calls += 1;
        if self.intr_every > 0 && self.calls % self.intr_every == 0 {
            return Err(io::Error::new(io::ErrorKind::Interrupted, "EINTR"));
        }
        let n = buf.len().min(self.chunk);
        self.inner.read(&mut buf[..n])
    }
}
impl Seek for Frag {
    fn seek(&mut self, pos: SeekFrom) -> io::Result<u64> {
        self.inner.seek(pos)
    }
}

struct Rec {
    name: String,
    seq: Vec<u8>,
    width: usize,
}

/// Build a FASTA file and the .fai that `samtools faidx` writes for it.
/// `final_term`: whether the very last line of the file has a terminator.
/// `empty_conv`: (line_bases, line_bytes) to write for empty records
fn build(recs: &[Rec], term: &str, final_term: bool, empty_conv: (u64, u64)) -> (Vec<u8>, String) {
    let mut fa = Vec::new();
    let mut fai = String::new();
    for (ri, r) in recs.iter().enumerate() {
        fa.extend_from_slice(format!(">{}{}", r.name, term).as_bytes());
        let off = fa.len();
        let nlines = (r.seq.len() + r.width - 1) / r.width;
        for (li, line) in r.seq.chunks(r.width).enumerate() {
            fa.extend_from_slice(line);
            let last = ri + 1 == recs.len() && li + 1 == nlines;
            if !last || final_term {
                fa.extend_from_slice(term.as_bytes());
            }
        }
        if r.seq.is_empty() {
            fai.push_str(&format!(
                "{}\t0\t{}\t{}\t{}\n",
                r.name, off, empty_conv.0, empty_conv.1
            ));
        } else {
            let lb = r.width.min(r.seq.len());
            // samtools: width of the first line
            let single_unterminated =
                ri + 1 == recs.len() && nlines == 1 && !final_term;
            let lby = if single_unterminated { lb } else { lb + term.len() };
            fai.push_str(&format!("{}\t{}\t{}\t{}\t{}\n", r.name, r.seq.len(), off, lb, lby));
        }
    }
    (fa, fai)
}

fn seq(n: usize, salt: usize) -> Vec<u8> {
    (0..n)
        .map(|i| b"ACGTNacgtn*-"[(i * 7 + salt * 3 + i / 5) % 12])
        .collect()
}

fn read_buf<R: Read + Seek>(r: &mut IndexedReader<R>) -> io::Result<Vec<u8>> {
    let mut v = b"garbage".to_vec();
    r.read(&mut v)?;
    Ok(v)
}
fn read_it<R: Read + Seek>(r: &mut IndexedReader<R>) -> io::Result<Vec<u8>> {
    let it = r.read_iter()?;
    let (lo, hi) = it.size_hint();
    let mut out = Vec::new();
    let mut n = 0usize;
    for b in it {
        n += 1;
        assert!(n < 1_000_000, "iterator does not end");
        out.push(b?);
    }
    assert_eq!(lo, out.len(), "size_hint lower");
    assert_eq!(hi, Some(out.len()), "size_hint upper");
    Ok(out)
}

// ---------- exhaustive-ish sweep: no violation expected ----------

#[test]
fn ok_sweep_all_intervals_fragmentations() {
    for term in ["\n", "\r\n"] {
        for final_term in [true, false] {
            for &(w, l0, l1, l2) in &[
                (1usize, 1usize, 3usize, 2usize),
                (2, 4, 5, 1),
                (3, 3, 7, 6),
                (5, 5, 10, 11),
                (7, 20, 7, 6),
                (600, 1300, 600, 599),
            ] {
                let recs = vec![
                    Rec { name: "a".into(), seq: seq(l0, 1), width: w },
                    Rec { name: "b#\"x".into(), seq: seq(l1, 2), width: w + 1 },
                    Rec { name: "c".into(), seq: seq(l2, 3), width: w },
                ];
                let (fa, fai) = build(&recs, term, final_term, (0, 0));
                for chunk in [1usize, 2, 3, 7, 1 << 20] {
                    let mut rd =
                        IndexedReader::new(Frag::new(fa.clone(), chunk, 0), fai.as_bytes()).unwrap();
                    for (rid, r) in recs.iter().enumerate() {
                        let len = r.seq.len();
                        let step = if len > 50 { 97 } else { 1 };
                        let mut pts: Vec<usize> = (0..=len).step_by(step).collect();
                        for p in [len, r.width.min(len), (r.width * 2).min(len), len.saturating_sub(1)] {
                            pts.push(p);
                        }
                        for &s in &pts {
                            for &e in &pts {
                                if s > e {
                                    continue;
                                }
                                rd.fetch(&r.name, s as u64, e as u64).unwrap();
                                assert_eq!(read_buf(&mut rd).unwrap(), &r.seq[s..e]);
                                // second read after one fetch
                                assert_eq!(read_buf(&mut rd).unwrap(), &r.seq[s..e]);
                                rd.fetch_by_rid(rid, s as u64, e as u64).unwrap();
                                assert_eq!(read_it(&mut rd).unwrap(), &r.seq[s..e]);
                            }
                        }
                        rd.fetch_all(&r.name).unwrap();
                        assert_eq!(read_buf(&mut rd).unwrap(), r.seq);
                        rd.fetch_all_by_rid(rid).unwrap();
                        assert_eq!(read_it(&mut rd).unwrap(), r.seq);
                    }
                }
            }
        }
    }
}

#[test]
fn ok_truncation_never_gives_wrong_data() {
    for term in ["\n", "\r\n"] {
        let recs = vec![
            Rec { name: "a".into(), seq: seq(9, 1), width: 4 },
            Rec { name: "b".into(), seq: seq(8, 2), width: 4 },
            Rec { name: "c".into(), seq: seq(3, 3), width: 3 },
        ];
        let (fa, fai) = build(&recs, term, true, (0, 0));
        for cut in 0..fa.len() {
            for chunk in [1usize, 3, 1 << 20] {
                let mut rd =
                    IndexedReader::new(Frag::new(fa[..cut].to_vec(), chunk, 0), fai.as_bytes()).unwrap();
                for r in &recs {
                    for s in 0..=r.seq.len() {
                        for e in s..=r.seq.len() {
                            rd.fetch(&r.name, s as u64, e as u64).unwrap();
                            if let Ok(v) = read_buf(&mut rd) {
                                assert_eq!(v, &r.seq[s..e], "cut {} {} {}..{}", cut, r.name, s, e);
                            }
                            rd.fetch(&r.name, s as u64, e as u64).unwrap();
                            if let Ok(v) = read_it(&mut rd) {
                                assert_eq!(v, &r.seq[s..e], "iter cut {} {} {}..{}", cut, r.name, s, e);
                            }
                        }
                    }
                }
            }
        }
    }
}

#[test]
fn ok_invalid_requests_are_errors() {
    let recs = vec![Rec { name: "a".into(), seq: seq(9, 1), width: 4 }];
    let (fa, fai) = build(&recs, "\n", true, (0, 0));
    let mut rd = IndexedReader::new(Cursor::new(fa), fai.as_bytes()).unwrap();
    // read without fetch
    assert!(read_buf(&mut rd).is_err());
    assert!(rd.read_iter().is_err());
    // unknown
    assert!(rd.fetch("zz", 0, 1).is_err());
    assert!(rd.fetch_by_rid(1, 0, 1).is_err());
    assert!(rd.fetch_by_rid(usize::MAX, 0, 1).is_err());
    assert!(rd.fetch_all("zz").is_err());
    assert!(rd.fetch_all_by_rid(7).is_err());
    // still nothing fetched
    assert!(read_buf(&mut rd).is_err());
    for &(s, e) in &[
        (5u64, 2u64),
        (0, 10),
        (10, 10),
        (u64::MAX, u64::MAX),
        (0, u64::MAX),
        (u64::MAX, 0),
        (9, 8),
        (1, 0),
    ] {
        let ok = rd.fetch("a", s, e).is_ok();
        if ok {
            assert!(read_buf(&mut rd).is_err(), "{}..{}", s, e);
            assert!(rd.read_iter().is_err(), "{}..{}", s, e);
        }
    }
}

#[test]
fn ok_index_textual_variants() {
    let fa = b">a\nACGT\nAC\n>b\nTTTT\n".to_vec();
    let variants: Vec<&[u8]> = vec![
        b"a\t6\t3\t4\t5\nb\t4\t14\t4\t5\n",
        b"a\t6\t3\t4\t5\nb\t4\t14\t4\t5",
        b"a\t6\t3\t4\t5\r\nb\t4\t14\t4\t5\r\n",
        b"a\t6\t3\t4\t5\nb\t4\t14\t4\t5\n\n\n",
        b"\na\t6\t3\t4\t5\n\nb\t4\t14\t4\t5\n",
        // rows permuted
        b"b\t4\t14\t4\t5\na\t6\t3\t4\t5\n",
    ];
    for v in variants {
        let mut rd = IndexedReader::new(Cursor::new(fa.clone()), v).unwrap();
        rd.fetch("a", 1, 6).unwrap();
        assert_eq!(read_buf(&mut rd).unwrap(), b"CGTAC");
        rd.fetch("b", 1, 3).unwrap();
        assert_eq!(read_it(&mut rd).unwrap(), b"TT");
    }
}

#[test]
fn ok_odd_names() {
    for name in ["\"q\"", "#c", "a\"b", "x,y", "é", "1", "'", "a|b:1-2", "\\"] {
        let fa = format!(">{}\nACGT\n", name).into_bytes();
        let fai = format!("{}\t4\t{}\t4\t5\n", name, name.len() + 2);
        let mut rd = IndexedReader::new(Cursor::new(fa), fai.as_bytes()).unwrap();
        rd.fetch(name, 1, 3).unwrap();
        assert_eq!(read_buf(&mut rd).unwrap(), b"CG");
        assert_eq!(rd.index.sequences()[0].name, name);
    }
}

#[test]
fn ok_single_line_width_larger_than_record() {
    // index rows that describe the file correctly with a nominal width > len
    let fa = b">a\nACGT\n>b\nGG".to_vec();
    let fai = b"a\t4\t3\t60\t61\nb\t2\t11\t60\t61\n";
    for chunk in [1, 2, 100] {
        let mut rd = IndexedReader::new(Frag::new(fa.clone(), chunk, 0), &fai[..]).unwrap();
        rd.fetch("a", 0, 4).unwrap();
        assert_eq!(read_buf(&mut rd).unwrap(), b"ACGT");
        rd.fetch("b", 0, 2).unwrap();
        assert_eq!(read_it(&mut rd).unwrap(), b"GG");
        rd.fetch("b", 2, 2).unwrap();
        assert_eq!(read_buf(&mut rd).unwrap(), b"");
    }
}

// ---------- candidates ----------

/// Empty record in the middle of a file; samtools faidx writes `name 0 offset 0 0`.
#[test]
fn viol_empty_record_samtools_index() {
    let fa = b">a\nACGT\nT\n>e\n>b\nACGT\nT\n".to_vec();
    let fai = "a\t5\t3\t4\t5\ne\t0\t13\t0\t0\nb\t5\t16\t4\t5\n";
    let mut rd = IndexedReader::new(Cursor::new(fa), fai.as_bytes()).unwrap();
    rd.fetch("e", 0, 0).unwrap();
    let r = catch_unwind(AssertUnwindSafe(|| read_buf(&mut rd)));
    match r {
        Ok(Ok(v)) => assert_eq!(v, b""),
        Ok(Err(e)) => panic!("valid request e[0..0] gave Err: {}", e),
        Err(_) => panic!("valid request e[0..0] PANICKED in read()"),
    }
}

#[test]
fn viol_empty_record_samtools_index_iter_and_fetch_all() {
    let fa = b">a\nACGT\n>e\n>b\nAC\n".to_vec();
    let fai = "a\t4\t3\t4\t5\ne\t0\t11\t0\t0\nb\t2\t14\t2\t3\n";
    let mut rd = IndexedReader::new(Cursor::new(fa), fai.as_bytes()).unwrap();
    rd.fetch_all("e").unwrap();
    let r = catch_unwind(AssertUnwindSafe(|| rd.read_iter().map(|it| it.count())));
    match r {
        Ok(Ok(n)) => assert_eq!(n, 0),
        Ok(Err(e)) => panic!("valid request gave Err: {}", e),
        Err(_) => panic!("fetch_all(e) + read_iter() PANICKED"),
    }
}

/// Same file, but the empty record's row carries a non-zero nominal width: fine.
#[test]
fn ok_empty_record_nonzero_width_row() {
    let fa = b">a\nACGT\n>e\n>b\nAC\n".to_vec();
    let fai = "a\t4\t3\t4\t5\ne\t0\t11\t4\t5\nb\t2\t14\t2\t3\n";
    let mut rd = IndexedReader::new(Cursor::new(fa), fai.as_bytes()).unwrap();
    rd.fetch_all("e").unwrap();
    assert_eq!(read_buf(&mut rd).unwrap(), b"");
    assert_eq!(read_it(&mut rd).unwrap(), b"");
    rd.fetch("e", 0, 1).unwrap();
    assert!(read_buf(&mut rd).is_err());
}

/// Underlying reader that sometimes returns ErrorKind::Interrupted (must be retried
/// by convention; std::io::Read::read_exact/read_to_end do so).
#[test]
fn viol_interrupted_reader() {
    let recs = vec![Rec { name: "a".into(), seq: seq(40, 1), width: 7 }];
    let (fa, fai) = build(&recs, "\n", true, (0, 0));
    let mut rd = IndexedReader::new(Frag::new(fa.clone(), 5, 3), fai.as_bytes()).unwrap();
    rd.fetch("a", 2, 39).unwrap();
    match read_buf(&mut rd) {
        Ok(v) => assert_eq!(v, &recs[0].seq[2..39]),
        Err(e) => panic!("valid request failed: kind={:?} {}", e.kind(), e),
    }
}
#[test]
fn viol_interrupted_reader_iter() {
    let recs = vec![Rec { name: "a".into(), seq: seq(40, 1), width: 7 }];
    let (fa, fai) = build(&recs, "\n", true, (0, 0));
    let mut rd = IndexedReader::new(Frag::new(fa.clone(), 5, 3), fai.as_bytes()).unwrap();
    rd.fetch("a", 2, 39).unwrap();
    match read_it(&mut rd) {
        Ok(v) => assert_eq!(v, &recs[0].seq[2..39]),
        Err(e) => panic!("valid request failed: kind={:?} {}", e.kind(), e),
    }
}

/// A failed fetch followed by read(): must not hand out the previous interval with Ok.
#[test]
fn viol_failed_fetch_then_read_returns_stale() {
    let fa = b">a\nACGT\n>b\nTTGG\n".to_vec();
    let fai = "a\t4\t3\t4\t5\nb\t4\t11\t4\t5\n";
    let mut rd = IndexedReader::new(Cursor::new(fa), fai.as_bytes()).unwrap();
    rd.fetch("a", 1, 3).unwrap();
    assert_eq!(read_buf(&mut rd).unwrap(), b"CG");
    assert!(rd.fetch("nope", 0, 2).is_err());
    let r = read_buf(&mut rd);
    assert!(r.is_err(), "read after failed fetch returned Ok({:?})", r.unwrap());
}

/// FASTQ-style 6 column .fai rows (extra qualoffset column)
#[test]
fn viol_six_column_fai() {
    let fa = b">a\nACGT\n".to_vec();
    let fai = "a\t4\t3\t4\t5\t99\n";
    let mut rd = match IndexedReader::new(Cursor::new(fa), fai.as_bytes()) {
        Ok(r) => r,
        Err(e) => panic!("6-column fai rejected: {}", e),
    };
    rd.fetch("a", 1, 3).unwrap();
    assert_eq!(read_buf(&mut rd).unwrap(), b"CG");
}

/// Sequence name that is not valid UTF-8 (Latin-1 byte)
#[test]
fn viol_non_utf8_name() {
    let fai = b"caf\xe9\t4\t6\t4\t5\n";
    match Index::new(&fai[..]) {
        Ok(_) => {}
        Err(e) => panic!("index with Latin-1 name rejected: {}", e),
    }
}

/// Truncated file, empty interval positioned past EOF: Ok(empty) or Err?
#[test]
fn viol_truncated_empty_interval_past_eof() {
    let fa = b">a\nACGT\nACGT\n".to_vec();
    let fai = "a\t8\t3\t4\t5\n";
    let mut rd = IndexedReader::new(Cursor::new(fa[..5].to_vec()), fai.as_bytes()).unwrap();
    rd.fetch("a", 6, 6).unwrap();
    assert!(read_buf(&mut rd).is_err(), "Ok for empty interval beyond EOF of truncated file");
}

/// Index whose coordinates make offset arithmetic overflow (index does not match any real file)
#[test]
fn viol_overflowing_index_row() {
    let fa = b">a\nACGT\n".to_vec();
    let fai = format!("a\t{}\t3\t1\t3\n", u64::MAX);
    let mut rd = IndexedReader::new(Cursor::new(fa), fai.as_bytes()).unwrap();
    rd.fetch("a", u64::MAX - 1, u64::MAX).unwrap();
    let r = catch_unwind(AssertUnwindSafe(|| read_buf(&mut rd)));
    match r {
        Ok(Ok(v)) => panic!("Ok({:?}) for data that cannot exist", v),
        Ok(Err(_)) => {}
        Err(_) => panic!("PANIC on overflow"),
    }
}
