// Audit of the BED / GFF write->read round-trip property.
// Every test asserts what the PROPERTY requires.  Tests named `viol_*` are candidates that
// were expected to fail (a failure = demonstrated violation); tests named `ok_*` are
// candidates that turned out NOT to violate the property.
use bio::io::{bed, gff};
use multimap::MultiMap;

// ---------------------------------------------------------------- helpers

/// "<FF>" in a test string stands for the (non-UTF-8) byte 0xFF
fn ff(s: &str) -> Vec<u8> {
    let b = s.as_bytes();
    let mut out = vec![];
    let mut i = 0;
    while i < b.len() {
        if b[i..].starts_with(b"<FF>") {
            out.push(0xff);
            i += 4;
        } else {
            out.push(b[i]);
            i += 1;
        }
    }
    out
}

fn bed_rec(chrom: &str, s: u64, e: u64, aux: &[&str]) -> bed::Record {
    let mut r = bed::Record::new();
    r.set_chrom(chrom);
    r.set_start(s);
    r.set_end(e);
    for a in aux {
        r.push_aux(a);
    }
    r
}

fn bed_write(recs: &[bed::Record]) -> Vec<u8> {
    let mut buf = Vec::new();
    {
        let mut w = bed::Writer::new(&mut buf);
        for r in recs {
            w.write(r).unwrap();
        }
    }
    buf
}

fn bed_read(bytes: &[u8]) -> Vec<Result<bed::Record, String>> {
    let mut rd = bed::Reader::new(bytes);
    rd.records()
        .map(|r| r.map_err(|e| e.to_string()))
        .collect()
}

fn bed_rt_ok(recs: &[bed::Record]) {
    let bytes = bed_write(recs);
    let got = bed_read(&bytes);
    let got: Vec<bed::Record> = got
        .into_iter()
        .map(|r| r.unwrap_or_else(|e| panic!("error {e} in {:?}", String::from_utf8_lossy(&bytes))))
        .collect();
    assert_eq!(
        got,
        recs,
        "file was {:?}",
        String::from_utf8_lossy(&bytes)
    );
}

#[allow(clippy::too_many_arguments)]
fn gff_rec(
    seq: &str,
    src: &str,
    ft: &str,
    s: u64,
    e: u64,
    score: &str,
    strand: &str,
    phase: gff::Phase,
    attrs: &[(&str, &str)],
) -> gff::Record {
    let mut r = gff::Record::new();
    *r.seqname_mut() = seq.to_owned();
    *r.source_mut() = src.to_owned();
    *r.feature_type_mut() = ft.to_owned();
    *r.start_mut() = s;
    *r.end_mut() = e;
    *r.score_mut() = score.to_owned();
    *r.strand_mut() = strand.to_owned();
    *r.phase_mut() = phase;
    let mut m = MultiMap::new();
    for (k, v) in attrs {
        m.insert(k.to_string(), v.to_string());
    }
    *r.attributes_mut() = m;
    r
}

fn simple_gff(seq: &str, attrs: &[(&str, &str)]) -> gff::Record {
    gff_rec(seq, "src", "gene", 1, 10, ".", ".", gff::Phase::from(None), attrs)
}

fn gff_write(recs: &[gff::Record], t: gff::GffType) -> Vec<u8> {
    let mut buf = Vec::new();
    {
        let mut w = gff::Writer::new(&mut buf, t);
        for r in recs {
            w.write(r).unwrap();
        }
    }
    buf
}

fn gff_read(bytes: &[u8], t: gff::GffType) -> Vec<Result<gff::Record, String>> {
    let mut rd = gff::Reader::new(bytes, t);
    rd.records()
        .map(|r| r.map_err(|e| e.to_string()))
        .collect()
}

fn gff_eq(a: &gff::Record, b: &gff::Record) -> bool {
    // field-for-field, value order per key
    if !(a.seqname() == b.seqname()
        && a.source() == b.source()
        && a.feature_type() == b.feature_type()
        && a.start() == b.start()
        && a.end() == b.end()
        && a.score() == b.score()
        && a.strand() == b.strand()
        && a.phase() == b.phase())
    {
        return false;
    }
    let (ma, mb) = (a.attributes(), b.attributes());
    if ma.keys().count() != mb.keys().count() {
        return false;
    }
    for (k, vs) in ma.iter_all() {
        if mb.get_vec(k) != Some(vs) {
            return false;
        }
    }
    a == b
}

fn gff_rt_ok(recs: &[gff::Record], t: gff::GffType) {
    let bytes = gff_write(recs, t);
    let got = gff_read(&bytes, t);
    assert_eq!(
        got.len(),
        recs.len(),
        "record count; file {:?}; got {:?}",
        String::from_utf8_lossy(&bytes),
        got
    );
    for (g, r) in got.iter().zip(recs) {
        let g = g
            .as_ref()
            .unwrap_or_else(|e| panic!("error {e} in {:?}", String::from_utf8_lossy(&bytes)));
        assert!(
            gff_eq(g, r),
            "mismatch: wrote {:?}\n got {:?}\n file {:?}",
            r,
            g,
            String::from_utf8_lossy(&bytes)
        );
    }
}

const DIALECTS: [gff::GffType; 3] = [gff::GffType::GFF3, gff::GffType::GFF2, gff::GffType::GTF2];

// ================================================================ BED

#[test]
fn ok_bed_basic_k012_and_accessors() {
    bed_rt_ok(&[]);
    bed_rt_ok(&[bed_rec("chr1", 0, u64::MAX, &[]), bed_rec("chr2", u64::MAX, 0, &[])]);
    bed_rt_ok(&[bed_rec("chr1", 0, 1, &["n"]), bed_rec("chr2", 5, 7, &[""])]);
    bed_rt_ok(&[bed_rec("chr1", 0, 1, &["n", "5"]), bed_rec("", 5, 7, &["", ""])]);
    let recs = [bed_rec("c", 1, 2, &["nm", "0.5", "-", "x"])];
    let got = bed_read(&bed_write(&recs));
    let g = got[0].as_ref().unwrap();
    assert_eq!(g.name(), Some("nm"));
    assert_eq!(g.score(), Some("0.5"));
    assert_eq!(g.strand(), Some(bio_types::strand::Strand::Reverse));
    assert_eq!(g.aux(6), Some("x"));
    assert_eq!(g.aux(7), None);
    // k=0 / 1 / 2 accessors
    let g = bed_rec("c", 1, 2, &[]);
    assert_eq!((g.name(), g.score(), g.strand()), (None, None, None));
    let g = bed_rec("c", 1, 2, &["a"]);
    assert_eq!((g.name(), g.score(), g.strand()), (Some("a"), None, None));
}

#[test]
fn ok_bed_setters() {
    let mut r = bed::Record::new();
    r.set_chrom("c");
    r.set_score("7"); // pushes empty name first
    r.push_aux("+");
    r.set_name("nm");
    bed_rt_ok(&[r.clone()]);
    assert_eq!(r.name(), Some("nm"));
    assert_eq!(r.score(), Some("7"));
}

#[test]
fn ok_bed_nasty_strings() {
    // csv quoting must round trip quotes, commas, CR, LF, tabs, inner '#', non-ASCII, blanks
    let nasty = [
        "\"", "\"\"", "a\"b", "'", ",", "a,b", "\r", "\n", "\r\n", "a\tb", "\t", " ", " a ", "a#b",
        "é", "\u{0}", "x\ny\n", "\"#",
    ];
    for s in nasty {
        bed_rt_ok(&[bed_rec("chr", 1, 2, &[s]), bed_rec("chr", 3, 4, &["z"])]);
        bed_rt_ok(&[bed_rec("chr", 1, 2, &["q", s]), bed_rec("chr", 3, 4, &["z", "w"])]);
        if !s.starts_with('#') {
            bed_rt_ok(&[bed_rec(s, 1, 2, &[]), bed_rec("c", 3, 4, &[])]);
            bed_rt_ok(&[bed_rec("c", 3, 4, &["u"]), bed_rec(s, 1, 2, &["v"])]);
        }
    }
    // '#' at the start of a NON-first column is harmless
    bed_rt_ok(&[bed_rec("chr", 1, 2, &["#x", "#"])]);
}

#[test]
fn viol_bed_chrom_starting_with_hash_is_lost() {
    // first column starting with '#': the writer does not quote it, the reader drops the line
    bed_rt_ok(&[
        bed_rec("chr1", 1, 2, &["a"]),
        bed_rec("#chr2", 3, 4, &["b"]),
        bed_rec("chr3", 5, 6, &["c"]),
    ]);
}

#[test]
fn ok_bed_comments() {
    for f in [
        &b"#c\nchr1\t1\t2\tn\n#c2\nchr2\t3\t4\tm\n#end\n"[..],
        &b"#c\t\"x\n#\"\nchr1\t1\t2\tn\n#a\tb\tc\td\te\nchr2\t3\t4\tm\n#end\n"[..],
        &b"#\nchr1\t1\t2\tn\n\n#\n#\nchr2\t3\t4\tm"[..],
    ] {
        let got = bed_read(f);
        assert_eq!(got.len(), 2, "{:?}", got);
        assert_eq!(got[0].as_ref().unwrap(), &bed_rec("chr1", 1, 2, &["n"]));
        assert_eq!(got[1].as_ref().unwrap(), &bed_rec("chr2", 3, 4, &["m"]));
    }
}

#[test]
fn viol_bed_final_comment_without_newline_not_skipped() {
    // same file as in ok_bed_comments, but the last (comment) line has no trailing newline
    let mut failed = vec![];
    for f in [
        &b"#c\nchr1\t1\t2\tn\n#c2\nchr2\t3\t4\tm\n#end"[..],
        &b"chr1\t1\t2\tn\nchr2\t3\t4\tm\n#"[..],
        &b"#only a comment"[..],
    ] {
        let got = bed_read(f);
        if got.iter().any(|r| r.is_err()) {
            failed.push(format!("{:?} -> {:?}", String::from_utf8_lossy(f), got));
        }
    }
    assert!(failed.is_empty(), "comment produced an error record: {:#?}", failed);
}

#[test]
fn ok_bed_malformed_later_line() {
    // bad number / wrong column count on a LATER line: error for that record only
    for bad in ["chr2\tx\t4\tm", "chr2\t3\t4", "chr2\t3\t4\tm\textra", "chr2\t3", "chr2", "chr2\t-1\t4\tm",
        "chr2\t3.0\t4\tm", "chr2\t1e3\t4\tm", "chr2\t 3\t4\tm", "chr2\t3 \t4\tm", "chr2\t\t4\tm",
        "chr2\t18446744073709551616\t4\tm", "chr2\t3\t4\t<FF>"] {
        let f = format!("chr1\t1\t2\tn\n{bad}\nchr3\t5\t6\to\n");
        let got = bed_read(&ff(&f));
        assert_eq!(got.len(), 3, "{bad:?} {:?}", got);
        assert_eq!(got[0].as_ref().unwrap(), &bed_rec("chr1", 1, 2, &["n"]));
        assert!(got[1].is_err(), "{bad:?} accepted: {:?}", got[1]);
        assert_eq!(got[2].as_ref().unwrap(), &bed_rec("chr3", 5, 6, &["o"]), "{bad:?}");
    }
}

#[test]
fn ok_bed_bad_number_first_line() {
    let got = bed_read(b"chr1\tx\t2\tn\nchr2\t3\t4\tm\n");
    assert_eq!(got.len(), 2);
    assert!(got[0].is_err());
    assert_eq!(got[1].as_ref().unwrap(), &bed_rec("chr2", 3, 4, &["m"]));
}

#[test]
fn viol_bed_short_first_line_poisons_all_other_lines() {
    // written file "chr1\t1\t2\tn\nchr2\t3\t4\tm\nchr3\t5\t6\to\n" with one tab of line 1 deleted
    let got = bed_read(b"chr1\t1\t2n\nchr2\t3\t4\tm\nchr3\t5\t6\to\n");
    assert_eq!(got.len(), 3, "{:?}", got);
    // (line 1 itself is now a valid k=0 line "chr1 1 2n"? no: "2n" is a bad number)
    assert!(got[0].is_err());
    assert_eq!(got[1].as_ref().expect("well-formed line 2 must parse"), &bed_rec("chr2", 3, 4, &["m"]));
    assert_eq!(got[2].as_ref().expect("well-formed line 3 must parse"), &bed_rec("chr3", 5, 6, &["o"]));
}

#[test]
fn viol_bed_truncated_first_line_k0_poisons_all_other_lines() {
    // k = 0 file, first line lost its third column
    let got = bed_read(b"chr1\t1\nchr2\t3\t4\nchr3\t5\t6\n");
    assert_eq!(got.len(), 3, "{:?}", got);
    assert!(got[0].is_err());
    assert_eq!(got[1].as_ref().expect("well-formed line 2 must parse"), &bed_rec("chr2", 3, 4, &[]));
    assert_eq!(got[2].as_ref().expect("well-formed line 3 must parse"), &bed_rec("chr3", 5, 6, &[]));
}

#[test]
fn viol_bed_long_first_line_accepted_and_poisons_others() {
    // k = 1 file, a byte of the first line's name corrupted into a tab -> 5 columns
    let got = bed_read(b"chr1\t1\t2\tna\tme\nchr2\t3\t4\tm\nchr3\t5\t6\to\n");
    assert_eq!(got.len(), 3, "{:?}", got);
    assert!(got[1].is_ok() && got[2].is_ok(), "well-formed lines rejected: {:?}", got);
}

#[test]
fn viol_bed_hex_and_plus_numbers_silently_accepted() {
    let mut acc = vec![];
    for bad in ["0x10", "+5", "0xfF", "0x0", "+0"] {
        let f = format!("chr1\t1\t2\tn\nchr2\t{bad}\t400\tm\n");
        let got = bed_read(f.as_bytes());
        if let Ok(r) = &got[1] {
            acc.push(format!("{bad:?} -> start {}", r.start()));
        }
    }
    assert!(acc.is_empty(), "accepted: {:?}", acc);
}

#[test]
fn ok_bed_leading_zero_numbers() {
    // leading zeros are plain decimal; accepted as the same number (not counted as violation)
    let got = bed_read(b"chr2\t007\t400\tm\n");
    assert_eq!(got[0].as_ref().unwrap().start(), 7);
}

#[test]
fn viol_bed_quote_corruption_merges_following_records() {
    // written file: 3 records, k=1.  First byte of line-1 name corrupted into '"'.
    let orig = bed_write(&[
        bed_rec("chr1", 1, 2, &["name"]),
        bed_rec("chr2", 3, 4, &["m"]),
        bed_rec("chr3", 5, 6, &["o"]),
    ]);
    let mut bad = orig.clone();
    let p = orig.iter().position(|&b| b == b'n').unwrap();
    bad[p] = b'"';
    let got = bed_read(&bad);
    // property: the damaged line may fail, other well-formed lines must still be delivered
    assert_eq!(got.len(), 3, "records merged/lost: {:?}", got);
}

#[test]
fn viol_bed_aux_index_below_3_panics() {
    // documented as "counting first field (chromosome) as 0"; index 0..=2 underflows
    let r = bed_rec("c", 1, 2, &["a"]);
    let res = std::panic::catch_unwind(|| r.aux(2).map(|s| s.to_owned()));
    assert!(res.is_ok(), "Record::aux(2) panicked");
}

#[test]
fn ok_bed_invalid_utf8_and_truncations_no_panic() {
    let orig = bed_write(&[
        bed_rec("chr1", 1, 2, &["name", "x\"y"]),
        bed_rec("chr2", 3, 4, &["m", "a\nb"]),
        bed_rec("chr3", 5, 6, &["o", ""]),
    ]);
    for cut in 0..=orig.len() {
        let _ = bed_read(&orig[..cut]);
    }
    for i in 0..orig.len() {
        for b in [0u8, b'\t', b'\n', b'\r', b'"', b'#', 0xff, b'-', b'x'] {
            let mut c = orig.clone();
            c[i] = b;
            let _ = bed_read(&c);
        }
    }
}

// ================================================================ GFF

#[test]
fn ok_gff_basic_all_dialects() {
    for t in DIALECTS {
        gff_rt_ok(&[], t);
        let recs = [
            gff_rec("chr1", "src", "gene", 0, u64::MAX, ".", ".", gff::Phase::from(None), &[]),
            gff_rec("chr1", "s", "CDS", 1, 2, "50", "+", gff::Phase::from(0u8), &[("ID", "x")]),
            gff_rec("", "", "", 1, 2, "", "", gff::Phase::from(1u8), &[("ID", "x"), ("ID", "y"), ("N", "z")]),
            gff_rec("c", "s", "f", 1, 2, "0.5e-3", "-", gff::Phase::from(2u8), &[("a", "1"), ("ab", "2"), ("abc", "3"), ("b", "a")]),
            gff_rec("c", "s", "f", 1, 2, "what ever", "?", gff::Phase::from(3u8), &[("k", "v")]),
            gff_rec("c", "s", "f", 1, 2, "\"q\"", "a\tb", gff::Phase::from(Some(7u8)), &[("k", "v")]),
        ];
        gff_rt_ok(&recs, t);
        let got = gff_read(&gff_write(&recs, t), t);
        assert_eq!(got[1].as_ref().unwrap().score(), Some(50));
        assert_eq!(got[0].as_ref().unwrap().score(), None);
    }
}

#[test]
fn ok_gff_attr_values_special_chars() {
    for t in DIALECTS {
        let vals = ["%", "a%20b", "a:b", "http://x/y", "a&b", "é", "日本", "#", "a#b", "x.y-z_1|2", "(a)", "[a]", "\\", "^", "$", "*", "+", "?", "{}", "-"];
        for v in vals {
            gff_rt_ok(&[simple_gff("c", &[(v, v), ("k", v), ("k", "w"), ("k", v)])], t);
        }
        // many values under one key, order preserved
        let many: Vec<String> = (0..300).rev().map(|i| format!("v{i}")).collect();
        let at: Vec<(&str, &str)> = many.iter().map(|v| ("key", v.as_str())).collect();
        gff_rt_ok(&[simple_gff("c", &at)], t);
        // prefix keys with many values
        gff_rt_ok(&[simple_gff("c", &[("a", "1"), ("aa", "2"), ("a", "3"), ("aaa", "a"), ("aa", "aa")])], t);
    }
    // dialect-specific non-delimiters
    gff_rt_ok(&[simple_gff("c", &[("a b", "c d"), ("k", " v "), ("k", "w ")])], gff::GffType::GFF3);
    for t in [gff::GffType::GFF2, gff::GffType::GTF2] {
        gff_rt_ok(&[simple_gff("c", &[("a=b", "c,d"), ("k", "v=w"), ("k", "x,y"), ("k", ",")])], t);
    }
}

#[test]
fn viol_gff_seqname_starting_with_hash_is_lost() {
    for t in DIALECTS {
        gff_rt_ok(
            &[simple_gff("chr1", &[("k", "v")]), simple_gff("#chr2", &[("k", "v")]), simple_gff("chr3", &[("k", "v")])],
            t,
        );
    }
}

#[test]
fn viol_gff2_value_with_nul_is_split() {
    // NUL is not a GFF2/GTF2 delimiter (blank, ';'), tab or line break
    for t in [gff::GffType::GFF2, gff::GffType::GTF2] {
        gff_rt_ok(&[simple_gff("c", &[("k", "a\u{0}b")])], t);
    }
}

#[test]
fn ok_gff3_value_with_nul() {
    gff_rt_ok(&[simple_gff("c", &[("k", "a\u{0}b"), ("k\u{0}", "\u{0}")])], gff::GffType::GFF3);
}

#[test]
fn ok_gff2_key_with_nul() {
    for t in [gff::GffType::GFF2, gff::GffType::GTF2] {
        gff_rt_ok(&[simple_gff("c", &[("k\u{0}x", "v")])], t);
    }
}

#[test]
fn borderline_gff_quotes_and_leading_blank() {
    // relies on quote characters / leading blanks: stripped by design
    let mut failed = vec![];
    for t in DIALECTS {
        for (k, v) in [("Note", "5'"), ("Note", "\"x\""), ("k", "'"), ("'k", "v")] {
            let r = std::panic::catch_unwind(|| gff_rt_ok(&[simple_gff("c", &[(k, v)])], t));
            if r.is_err() {
                failed.push(format!("{t:?} {k:?}={v:?}"));
            }
        }
    }
    let r = std::panic::catch_unwind(|| gff_rt_ok(&[simple_gff("c", &[(" k", "v")])], gff::GffType::GFF3));
    if r.is_err() {
        failed.push("GFF3 \" k\"=v".to_string());
    }
    assert!(failed.is_empty(), "altered: {:?}", failed);
}

#[test]
fn ok_gff_nasty_columns() {
    for t in DIALECTS {
        for s in ["\"", "a\"b", ",", "\r", "\n", "a\tb", " ", "é", "x#", "a\nb\n"] {
            gff_rt_ok(&[simple_gff(s, &[("k", "v")]), simple_gff("c", &[])], t);
            gff_rt_ok(
                &[gff_rec("c", s, s, 1, 2, s, s, gff::Phase::from(None), &[("k", "v")]), simple_gff("c", &[])],
                t,
            );
        }
        gff_rt_ok(&[gff_rec("c", "#", "#", 1, 2, "#", "#", gff::Phase::from(None), &[("#", "#")])], t);
    }
}

#[test]
fn ok_gff_comments() {
    for t in DIALECTS {
        let a = simple_gff("chr1", &[("k", "v")]);
        let b = simple_gff("chr2", &[("k", "w")]);
        let la = String::from_utf8(gff_write(&[a.clone()], t)).unwrap();
        let lb = String::from_utf8(gff_write(&[b.clone()], t)).unwrap();
        for f in [
            format!("##gff-version 3\n{la}#mid\t\"x\n{lb}#end\n"),
            format!("#\n#\"\n{la}\n\n#a\tb\tc\td\te\tf\tg\th\ti\n{lb}#end\n"),
            format!("{la}#\n{}", lb.trim_end()),
        ] {
            let got = gff_read(f.as_bytes(), t);
            assert_eq!(got.len(), 2, "{f:?} {:?}", got);
            assert!(gff_eq(got[0].as_ref().unwrap(), &a));
            assert!(gff_eq(got[1].as_ref().unwrap(), &b));
        }
    }
}

#[test]
fn viol_gff_final_comment_without_newline_not_skipped() {
    let mut failed = vec![];
    for t in DIALECTS {
        let la = String::from_utf8(gff_write(&[simple_gff("chr1", &[("k", "v")])], t)).unwrap();
        for f in [format!("##gff-version 3\n{la}#end"), format!("{la}#"), "#only a comment".to_string()] {
            let got = gff_read(f.as_bytes(), t);
            if got.iter().any(|r| r.is_err()) {
                failed.push(format!("{t:?} {f:?} -> {got:?}"));
            }
        }
    }
    assert!(failed.is_empty(), "comment produced an error record: {:#?}", failed);
}

#[test]
fn ok_gff_malformed_lines_error_only_themselves() {
    let good1 = "c1\ts\tf\t1\t2\t.\t+\t0\tk=v";
    let good2 = "c2\ts\tf\t3\t4\t.\t-\t.\tk=w";
    let bads = [
        "c\ts\tf\tx\t2\t.\t+\t0\tk=v",
        "c\ts\tf\t1\t\t.\t+\t0\tk=v",
        "c\ts\tf\t-1\t2\t.\t+\t0\tk=v",
        "c\ts\tf\t1\t2.5\t.\t+\t0\tk=v",
        "c\ts\tf\t1\t1e3\t.\t+\t0\tk=v",
        "c\ts\tf\t 1\t2\t.\t+\t0\tk=v",
        "c\ts\tf\t1\t18446744073709551616\t.\t+\t0\tk=v",
        "c\ts\tf\t1\t2\t.\t+\t3\tk=v",
        "c\ts\tf\t1\t2\t.\t+\t\tk=v",
        "c\ts\tf\t1\t2\t.\t+\t-1\tk=v",
        "c\ts\tf\t1\t2\t.\t+\t..\tk=v",
        "c\ts\tf\t1\t2\t.\t+\t 0\tk=v",
        "c\ts\tf\t1\t2\t.\t+\t256\tk=v",
        "c\ts\tf\t1\t2\t.\t+\t0x1\tk=v",
        "c\ts\tf\t1\t2\t.\t+\t0",
        "c\ts\tf\t1\t2\t.\t+\t0\tk=v\textra",
        "c",
        "c\ts\tf\t1\t2\t.\t+\t0\t<FF>",
    ];
    for t in DIALECTS {
        for bad in bads {
            // malformed in the middle and malformed as FIRST line
            for f in [format!("{good1}\n{bad}\n{good2}\n"), format!("{bad}\n{good1}\n{good2}")] {
                let got = gff_read(&ff(&f), t);
                assert_eq!(got.len(), 3, "{bad:?}");
                let n_err = got.iter().filter(|r| r.is_err()).count();
                assert_eq!(n_err, 1, "{bad:?}: {:?}", got);
                let oks: Vec<_> = got.iter().filter_map(|r| r.as_ref().ok()).collect();
                assert_eq!(oks[0].seqname(), "c1");
                assert_eq!(oks[1].seqname(), "c2");
            }
        }
    }
}

#[test]
fn viol_gff_signed_or_padded_phase_accepted() {
    let mut acc = vec![];
    for bad in ["+1", "01", "002", "+0", "+002"] {
        let f = format!("c\ts\tf\t1\t2\t.\t+\t{bad}\tk=v\n");
        let got = gff_read(f.as_bytes(), gff::GffType::GFF3);
        if let Ok(r) = &got[0] {
            acc.push(format!("{bad:?} -> {:?}", r.phase()));
        }
    }
    assert!(acc.is_empty(), "accepted: {:?}", acc);
}

#[test]
fn viol_gff_hex_and_plus_coordinates_accepted() {
    let mut acc = vec![];
    for bad in ["0x10", "+5", "0xfF", "0x0"] {
        let f = format!("c\ts\tf\t{bad}\t200\t.\t+\t0\tk=v\n");
        let got = gff_read(f.as_bytes(), gff::GffType::GFF3);
        if let Ok(r) = &got[0] {
            acc.push(format!("{bad:?} -> start {}", r.start()));
        }
    }
    assert!(acc.is_empty(), "accepted: {:?}", acc);
}

#[test]
fn viol_gff_quote_corruption_swallows_following_records() {
    for t in DIALECTS {
        let orig = gff_write(
            &[simple_gff("chr1", &[("k", "v")]), simple_gff("chr2", &[("k", "v")]), simple_gff("chr3", &[("k", "v")])],
            t,
        );
        let mut bad = orig.clone();
        let p = orig.iter().position(|&b| b == b's').unwrap(); // 's' of "src" on line 1
        bad[p] = b'"';
        let got = gff_read(&bad, t);
        assert_eq!(got.len(), 3, "records merged/lost: {:?}", got);
        assert!(got[1].is_ok() && got[2].is_ok());
    }
}

#[test]
fn ok_gff_corruption_sweep_no_panic() {
    for t in DIALECTS {
        let orig = gff_write(
            &[
                gff_rec("chr1", "s", "CDS", 1, 2, "50", "+", gff::Phase::from(0u8), &[("ID", "x"), ("ID", "y")]),
                gff_rec("chr2", "s\"x", "f", 10, 20, ".", ".", gff::Phase::from(None), &[]),
                simple_gff("chr3", &[("k", "v"), ("kk", "w")]),
            ],
            t,
        );
        for cut in 0..=orig.len() {
            let _ = gff_read(&orig[..cut], t);
        }
        for i in 0..orig.len() {
            for b in [0u8, b'\t', b'\n', b'\r', b'"', b'#', 0xff, b'-', b'x', b';', b'=', b' ', b','] {
                let mut c = orig.clone();
                c[i] = b;
                let _ = gff_read(&c, t);
            }
        }
    }
}

#[test]
fn ok_gff_empty_attr_column_and_phase_from() {
    for t in DIALECTS {
        let f = b"c\ts\tf\t1\t2\t.\t.\t.\t\nc\ts\tf\t1\t2\t.\t.\t2\t";
        let got = gff_read(f, t);
        assert_eq!(got.len(), 2);
        assert!(got[0].as_ref().unwrap().attributes().is_empty());
        assert_eq!(got[1].as_ref().unwrap().phase(), &gff::Phase::from(2u8));
    }
    assert_eq!(gff::Phase::from(3u8), gff::Phase::from(None));
    assert_eq!(gff::Phase::from(Some(255u8)), gff::Phase::from(None));
}

#[test]
fn borderline_gff_keys_differing_only_by_quote_are_merged() {
    // relies on quote characters (stripped by design)
    for t in DIALECTS {
        gff_rt_ok(&[simple_gff("c", &[("k", "1"), ("'k", "2")])], t);
    }
}

#[test]
fn note_writers_buffer_until_drop_no_flush_api() {
    // neither bed::Writer nor gff::Writer has flush()/into_inner(); data is complete after drop
    let dir = std::env::temp_dir().join("audit_c13_wt5");
    std::fs::create_dir_all(&dir).unwrap();
    let p = dir.join("x.bed");
    {
        let mut w = bed::Writer::to_file(&p).unwrap();
        w.write(&bed_rec("c", 1, 2, &["n"])).unwrap();
        // before drop nothing has reached the file (buffered) - not counted as a violation
        assert_eq!(std::fs::read(&p).unwrap().len(), 0);
    }
    assert_eq!(bed_read(&std::fs::read(&p).unwrap()).len(), 1);
    let p = dir.join("x.gff");
    {
        let mut w = gff::Writer::to_file(&p, gff::GffType::GFF3).unwrap();
        w.write(&simple_gff("c", &[("k", "v")])).unwrap();
    }
    assert_eq!(gff_read(&std::fs::read(&p).unwrap(), gff::GffType::GFF3).len(), 1);
}

// Systematic single-byte corruption: every line other than the damaged one must still be
// delivered unchanged.  Returns a description of the damage classes that break this.
fn line_of(orig: &[u8], i: usize) -> usize {
    orig[..i].iter().filter(|&&b| b == b'\n').count()
}

#[test]
fn viol_bed_sweep_first_line_column_damage_loses_other_lines() {
    let recs = [
        bed_rec("chr1", 10, 20, &["na", "5"]),
        bed_rec("chr2", 30, 40, &["nb", "6"]),
        bed_rec("chr3", 50, 60, &["nc", "7"]),
    ];
    let orig = bed_write(&recs);
    let mut classes = std::collections::BTreeSet::new();
    for i in 0..orig.len() {
        if orig[i] == b'\n' {
            continue;
        }
        let li = line_of(&orig, i);
        for b in [0u8, b'\t', b'#', 0xff, b'-', b'x', b' ', b'9', b'+', b';'] {
            if b == orig[i] {
                continue;
            }
            let mut c = orig.clone();
            c[i] = b;
            let got = bed_read(&c);
            let oks: Vec<&bed::Record> = got.iter().filter_map(|r| r.as_ref().ok()).collect();
            for (j, r) in recs.iter().enumerate() {
                if j != li && !oks.contains(&r) {
                    classes.insert(format!(
                        "byte {:?}->{:?} on line {} (was tab: {}) loses line {}",
                        orig[i] as char, b as char, li, orig[i] == b'\t', j
                    ));
                }
            }
        }
    }
    for c in &classes {
        println!("BEDCLASS {c}");
    }
    // every failing class is a tab gained/lost on the FIRST line
    assert!(classes.iter().all(|c| c.contains("on line 0")));
    assert!(classes.is_empty(), "{} damage classes lose OTHER lines, all on line 0", classes.len());
}

#[test]
fn ok_gff_sweep_other_lines_survive() {
    for t in DIALECTS {
        let recs = [
            gff_rec("chr1", "s", "CDS", 1, 2, "50", "+", gff::Phase::from(0u8), &[("ID", "x"), ("ID", "y")]),
            gff_rec("chr2", "s", "f", 10, 20, ".", ".", gff::Phase::from(None), &[]),
            simple_gff("chr3", &[("k", "v")]),
        ];
        let orig = gff_write(&recs, t);
        let mut classes = std::collections::BTreeSet::new();
        for i in 0..orig.len() {
            if orig[i] == b'\n' {
                continue;
            }
            let li = line_of(&orig, i);
            for b in [0u8, b'\t', b'#', 0xff, b'-', b'x', b' ', b'9', b'+', b';', b'='] {
                if b == orig[i] {
                    continue;
                }
                let mut c = orig.clone();
                c[i] = b;
                let got = gff_read(&c, t);
                let oks: Vec<&gff::Record> = got.iter().filter_map(|r| r.as_ref().ok()).collect();
                for (j, r) in recs.iter().enumerate() {
                    if j != li && !oks.iter().any(|o| gff_eq(o, r)) {
                        classes.insert(format!("byte {:?}->{:?} on line {} loses line {}", orig[i] as char, b as char, li, j));
                    }
                }
            }
        }
        for c in &classes {
            println!("GFFCLASS {t:?} {c}");
        }
        assert!(classes.is_empty());
    }
}
