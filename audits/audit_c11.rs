// Audit of the FASTA/FASTQ round-trip property against the unmodified library.
// Tests named `violation_*` PASS when the library misbehaves as described
// (they assert the wrong behaviour actually observed).
// Tests named `ok_*` PASS when the property holds for the tried inputs.

use bio::io::fasta::{self, FastaRead};
use bio::io::fastq::{self, FastqRead};
use bio::io::fastx::{self, EitherRecords, Record as FastxRecord};
use std::io::{self, BufReader, Read};

// ---------------------------------------------------------------- helpers

/// Read wrapper that hands out the data in chunks of the given sizes (cycled).
struct ChunkReader {
    data: Vec<u8>,
    pos: usize,
    sizes: Vec<usize>,
    k: usize,
}
impl ChunkReader {
    fn new(data: &[u8], sizes: &[usize]) -> Self {
        ChunkReader {
            data: data.to_vec(),
            pos: 0,
            sizes: sizes.to_vec(),
            k: 0,
        }
    }
}
impl Read for ChunkReader {
    fn read(&mut self, buf: &mut [u8]) -> io::Result<usize> {
        if self.pos >= self.data.len() || buf.is_empty() {
            return Ok(0);
        }
        let want = self.sizes[self.k % self.sizes.len()].max(1);
        self.k += 1;
        let n = want.min(buf.len()).min(self.data.len() - self.pos);
        buf[..n].copy_from_slice(&self.data[self.pos..self.pos + n]);
        self.pos += n;
        Ok(n)
    }
}

struct Rng(u64);
impl Rng {
    fn next(&mut self) -> u64 {
        self.0 ^= self.0 << 13;
        self.0 ^= self.0 >> 7;
        self.0 ^= self.0 << 17;
        self.0
    }
    fn below(&mut self, n: usize) -> usize {
        (self.next() % n as u64) as usize
    }
}

type Rec = (String, Option<String>, Vec<u8>, Vec<u8>);

fn write_fasta(recs: &[Rec], wrap: Option<usize>, cap: usize) -> Vec<u8> {
    let mut out = Vec::new();
    {
        let mut w = fasta::Writer::with_capacity(cap, &mut out);
        w.set_linewrap(wrap);
        for r in recs {
            w.write(&r.0, r.1.as_deref(), &r.2).unwrap();
        }
        w.flush().unwrap();
    }
    out
}

fn write_fastq(recs: &[Rec], cap: usize) -> Vec<u8> {
    let mut out = Vec::new();
    {
        let mut w = fastq::Writer::with_capacity(cap, &mut out);
        for r in recs {
            w.write(&r.0, r.1.as_deref(), &r.2, &r.3).unwrap();
        }
        w.flush().unwrap();
    }
    out
}

fn crlf(data: &[u8]) -> Vec<u8> {
    let mut v = Vec::new();
    for &b in data {
        if b == b'\n' {
            v.push(b'\r');
        }
        v.push(b);
    }
    v
}

fn read_fasta(data: &[u8], cap: usize, sizes: &[usize]) -> Vec<io::Result<fasta::Record>> {
    fasta::Reader::with_capacity(cap, ChunkReader::new(data, sizes))
        .records()
        .collect()
}

fn read_fastq(data: &[u8], cap: usize, sizes: &[usize]) -> Vec<fastq::Result<fastq::Record>> {
    fastq::Reader::with_capacity(cap, ChunkReader::new(data, sizes))
        .records()
        .collect()
}

fn fasta_eq(got: &[io::Result<fasta::Record>], want: &[Rec]) -> bool {
    got.len() == want.len()
        && got.iter().zip(want).all(|(g, w)| match g {
            Ok(g) => g.id() == w.0 && g.desc() == w.1.as_deref() && g.seq() == &w.2[..],
            Err(_) => false,
        })
}

fn fastq_eq(got: &[fastq::Result<fastq::Record>], want: &[Rec]) -> bool {
    got.len() == want.len()
        && got.iter().zip(want).all(|(g, w)| match g {
            Ok(g) => {
                g.id() == w.0
                    && g.desc() == w.1.as_deref()
                    && g.seq() == &w.2[..]
                    && g.qual() == &w.3[..]
            }
            Err(_) => false,
        })
}

fn rec(id: &str, desc: Option<&str>, seq: &[u8], qual: &[u8]) -> Rec {
    (
        id.to_string(),
        desc.map(|s| s.to_string()),
        seq.to_vec(),
        qual.to_vec(),
    )
}

// "Benign" generator: descriptions never end in whitespace and are non-empty,
// sequences are drawn from printable ASCII without '>' and '+'.
fn gen_records(rng: &mut Rng) -> Vec<Rec> {
    let n = rng.below(5);
    let id_chars: Vec<char> = "AZaz09_-.:|>@+;#é→".chars().collect();
    let desc_chars: Vec<char> = "ab Z\t9>@+;=ü ".chars().collect();
    let seq_chars: &[u8] = b"ACGTNacgtn*-.@;#~!";
    (0..n)
        .map(|_| {
            let id: String = (0..1 + rng.below(6))
                .map(|_| id_chars[rng.below(id_chars.len())])
                .collect();
            let desc = if rng.below(3) == 0 {
                None
            } else {
                let mut d: String = (0..rng.below(8))
                    .map(|_| desc_chars[rng.below(desc_chars.len())])
                    .collect();
                d.push('x'); // never empty, never ends in whitespace
                Some(d)
            };
            let maxlen = if rng.below(8) == 0 { 300 } else { 12 };
            let len = 1 + rng.below(maxlen);
            let seq: Vec<u8> = (0..len)
                .map(|_| seq_chars[rng.below(seq_chars.len())])
                .collect();
            let mut qual: Vec<u8> = (0..len).map(|_| 33 + rng.below(94) as u8).collect();
            match rng.below(4) {
                0 => qual[0] = b'@',
                1 => qual[0] = b'+',
                _ => {}
            }
            (id, desc, seq, qual)
        })
        .collect()
}

fn gen_sizes(rng: &mut Rng) -> Vec<usize> {
    match rng.below(4) {
        0 => vec![1],
        1 => vec![usize::MAX],
        _ => (0..1 + rng.below(5)).map(|_| 1 + rng.below(9)).collect(),
    }
}

fn gen_cap(rng: &mut Rng) -> usize {
    match rng.below(4) {
        0 => 1,
        1 => 2 + rng.below(6),
        2 => 8 + rng.below(64),
        _ => 8192,
    }
}

// ---------------------------------------------------------------- VIOLATIONS

/// V1: trailing blank/tab in a description is lost (FASTA and FASTQ).
#[test]
fn violation_v1_trailing_whitespace_in_description_lost() {
    for d in ["desc ", "desc\t", "a b  ", "x \t "] {
        let recs = vec![rec("id", Some(d), b"ACGT", b"IIII")];
        let fa = read_fasta(&write_fasta(&recs, None, 8192), 8192, &[usize::MAX]);
        let fq = read_fastq(&write_fastq(&recs, 8192), 8192, &[usize::MAX]);
        let fa_d = fa[0].as_ref().unwrap().desc().map(|s| s.to_string());
        let fq_d = fq[0].as_ref().unwrap().desc().map(|s| s.to_string());
        println!("written {:?} -> fasta {:?}, fastq {:?}", d, fa_d, fq_d);
        assert_eq!(fa_d.as_deref(), Some(d.trim_end()));
        assert_eq!(fq_d.as_deref(), Some(d.trim_end()));
        assert_ne!(fa_d.as_deref(), Some(d));
        assert_ne!(fq_d.as_deref(), Some(d));
    }
}

/// V2: empty (or all-blank) description Some("") is read back as None.
#[test]
fn violation_v2_empty_description_becomes_none() {
    for d in ["", " ", "\t", "  \t"] {
        let recs = vec![rec("id", Some(d), b"ACGT", b"IIII")];
        let fa = read_fasta(&write_fasta(&recs, None, 8192), 8192, &[usize::MAX]);
        let fq = read_fastq(&write_fastq(&recs, 8192), 8192, &[usize::MAX]);
        assert_eq!(fa[0].as_ref().unwrap().desc(), None);
        assert_eq!(fq[0].as_ref().unwrap().desc(), None);
        // Display path behaves the same
        let s = format!("{}", fasta::Record::with_attrs("id", Some(d), b"ACGT"));
        let fa2 = read_fasta(s.as_bytes(), 8192, &[usize::MAX]);
        assert_eq!(fa2[0].as_ref().unwrap().desc(), None);
    }
}

/// V3: trailing non-ASCII (Unicode) white space in a description is lost;
/// U+00A0 NO-BREAK SPACE / U+3000 are not line breaks.
#[test]
fn violation_v3_trailing_unicode_space_in_description_lost() {
    for d in ["desc\u{a0}", "desc\u{3000}", "\u{2003}"] {
        let recs = vec![rec("id", Some(d), b"ACGT", b"IIII")];
        let fa = read_fasta(&write_fasta(&recs, None, 8192), 8192, &[usize::MAX]);
        let fq = read_fastq(&write_fastq(&recs, 8192), 8192, &[usize::MAX]);
        assert_ne!(fa[0].as_ref().unwrap().desc(), Some(d));
        assert_ne!(fq[0].as_ref().unwrap().desc(), Some(d));
    }
}

/// V4: FASTA sequence containing '>' : when a (wrapped) sequence line begins with '>'
/// the reader starts a new record. ASCII sequence, no whitespace.
#[test]
fn violation_v4_fasta_sequence_line_starting_with_gt() {
    // 4a: unwrapped, sequence starts with '>'
    let recs = vec![rec("id", None, b">ACGT", b"")];
    let data = write_fasta(&recs, None, 8192);
    assert_eq!(data, b">id\n>ACGT\n");
    let got = read_fasta(&data, 8192, &[usize::MAX]);
    assert_eq!(got.len(), 2);
    assert_eq!(got[0].as_ref().unwrap().seq(), b"");
    assert_eq!(got[1].as_ref().unwrap().id(), "ACGT");

    // 4b: layout dependence: same record, unwrapped is fine, wrap 2 splits it
    let recs = vec![rec("id", None, b"AC>GT", b"")];
    let got = read_fasta(&write_fasta(&recs, None, 8192), 8192, &[usize::MAX]);
    assert!(fasta_eq(&got, &recs));
    let got = read_fasta(&write_fasta(&recs, Some(2), 8192), 8192, &[usize::MAX]);
    assert!(!fasta_eq(&got, &recs));
    assert_eq!(got.len(), 2);
    assert_eq!(got[0].as_ref().unwrap().seq(), b"AC");
    assert_eq!(got[1].as_ref().unwrap().id(), "G");
    assert_eq!(got[1].as_ref().unwrap().seq(), b"T");
}

/// V5: FASTQ sequence starting with '+' (ASCII, no whitespace): record is not read back.
#[test]
fn violation_v5_fastq_sequence_starting_with_plus() {
    let recs = vec![rec("id", None, b"+ACG", b"IIII")];
    let data = write_fastq(&recs, 8192);
    assert_eq!(data, b"@id\n+ACG\n+\nIIII\n");
    let got = read_fastq(&data, 8192, &[usize::MAX]);
    assert!(!fastq_eq(&got, &recs));
    assert!(matches!(got[0], Err(fastq::Error::IncompleteRecord)));
    println!("fastq '+seq' -> {} items, first = {:?}", got.len(), got[0]);

    // worse: with a quality string starting with '@' a record that was never written appears
    let recs = vec![
        rec("id", None, b"+A", b"@I"),
        rec("x", None, b"CC", b"JJ"),
        rec("y", None, b"GG", b"KK"),
    ];
    let data = write_fastq(&recs, 8192);
    let got = read_fastq(&data, 8192, &[usize::MAX]);
    for g in &got {
        println!("  {:?}", g);
    }
    let phantom = got.iter().any(|g| match g {
        Ok(r) => r.check().is_ok() && r.id() == "I" && r.seq() == b"@xCC" && r.qual() == b"JJ@y",
        _ => false,
    });
    assert!(phantom);
}

/// V6: set_linewrap(Some(0)) makes the FASTA writer panic (slice::chunks(0)).
#[test]
fn violation_v6_linewrap_zero_panics() {
    let res = std::panic::catch_unwind(|| {
        let mut out = Vec::new();
        let mut w = fasta::Writer::new(&mut out);
        w.set_linewrap(Some(0));
        let _ = w.write("id", None, b"ACGT");
    });
    assert!(res.is_err());
}

/// V7: fasta::Reader::read() after an "Expected > at record start" error makes no
/// progress: the offending line is kept, every further call returns the same error,
/// end of input is never reported. A `loop { read(); if err {continue} }` never ends.
#[test]
fn violation_v7_fasta_read_stuck_after_error() {
    let data = b"garbage\n>id\nACGT\n";
    let mut r = fasta::Reader::new(&data[..]);
    let mut record = fasta::Record::new();
    let mut errs = 0;
    for _ in 0..10_000 {
        match r.read(&mut record) {
            Err(_) => errs += 1,
            Ok(()) => break,
        }
    }
    assert_eq!(errs, 10_000);

    // same thing after an invalid-UTF-8 line in the middle of a record
    let data = b">id\nAC\xffGT\nACGT\n>id2\nAC\n";
    let mut r = fasta::Reader::new(&data[..]);
    let mut errs = 0;
    for _ in 0..10_000 {
        match r.read(&mut record) {
            Err(_) => errs += 1,
            Ok(()) if record.is_empty() => break,
            Ok(()) => {}
        }
    }
    assert_eq!(errs, 10_000);
}

/// V8 (borderline, API-history): a fasta::Reader reads one line ahead (the next header).
/// Creating a fresh Reader over the same `&mut BufRead` after each record loses that
/// header; the same pattern works for FASTQ.
#[test]
fn violation_v8_fasta_restarted_reader_loses_lookahead() {
    let recs = vec![
        rec("a", None, b"AC", b"II"),
        rec("b", None, b"GT", b"JJ"),
    ];
    let fq = write_fastq(&recs, 8192);
    let mut br = BufReader::new(&fq[..]);
    let mut record = fastq::Record::new();
    for w in &recs {
        fastq::Reader::from_bufread(&mut br).read(&mut record).unwrap();
        assert_eq!(record.id(), w.0);
    }
    let fa = write_fasta(&recs, None, 8192);
    let mut br = BufReader::new(&fa[..]);
    let mut record = fasta::Record::new();
    fasta::Reader::from_bufread(&mut br).read(&mut record).unwrap();
    assert_eq!(record.id(), "a");
    let second = fasta::Reader::from_bufread(&mut br).read(&mut record);
    assert!(second.is_err()); // header ">b" was swallowed by the first reader
}

// ---------------------------------------------------------------- NON-VIOLATIONS

#[test]
fn ok_random_roundtrip_layout_independent() {
    let mut rng = Rng(0x9E3779B97F4A7C15);
    for _ in 0..3000 {
        let recs = gen_records(&mut rng);
        let wcap = [0usize, 1, 7, 8192][rng.below(4)];
        let wrap = match rng.below(4) {
            0 => None,
            1 => Some(1),
            2 => Some(1 + rng.below(10)),
            _ => Some(1000),
        };
        let fa = write_fasta(&recs, wrap, wcap);
        let fq = write_fastq(&recs, wcap);
        for data in [fa.clone(), crlf(&fa)] {
            let got = read_fasta(&data, gen_cap(&mut rng), &gen_sizes(&mut rng));
            assert!(fasta_eq(&got, &recs), "fasta {:?} {:?}", recs, got);
            // sniffer
            let br = BufReader::with_capacity(
                gen_cap(&mut rng),
                ChunkReader::new(&data, &gen_sizes(&mut rng)),
            );
            let mut er = EitherRecords::new(br);
            if !recs.is_empty() {
                assert_eq!(er.kind().unwrap(), fastx::Kind::FASTA);
            }
            let got: Vec<_> = er.collect();
            assert_eq!(got.len(), recs.len());
            for (g, w) in got.iter().zip(&recs) {
                let g = g.as_ref().unwrap();
                assert!(g.id() == w.0 && g.desc() == w.1.as_deref() && g.seq() == &w.2[..]);
                assert!(g.qual().is_none());
            }
        }
        for data in [fq.clone(), crlf(&fq)] {
            let got = read_fastq(&data, gen_cap(&mut rng), &gen_sizes(&mut rng));
            assert!(fastq_eq(&got, &recs), "fastq {:?} {:?}", recs, got);
            let br = BufReader::with_capacity(
                gen_cap(&mut rng),
                ChunkReader::new(&data, &gen_sizes(&mut rng)),
            );
            let mut er = EitherRecords::new(br);
            if !recs.is_empty() {
                assert_eq!(er.kind().unwrap(), fastx::Kind::FASTQ);
            }
            let got: Vec<_> = er.collect();
            assert_eq!(got.len(), recs.len());
            for (g, w) in got.iter().zip(&recs) {
                let g = g.as_ref().unwrap();
                assert!(g.id() == w.0 && g.desc() == w.1.as_deref() && g.seq() == &w.2[..]);
                assert_eq!(g.qual(), Some(&w.3[..]));
            }
        }
    }
}

/// write / write_record / Display give the same bytes; read() with a reused Record
/// and read() after the end behave.
#[test]
fn ok_writer_apis_and_read_reuse() {
    let mut rng = Rng(42);
    for _ in 0..500 {
        let recs = gen_records(&mut rng);
        let a = write_fastq(&recs, 8192);
        let mut b = Vec::new();
        let mut c = String::new();
        {
            let mut w = fastq::Writer::with_capacity(0, &mut b);
            for r in &recs {
                let rr = fastq::Record::with_attrs(&r.0, r.1.as_deref(), &r.2, &r.3);
                w.write_record(&rr).unwrap();
                c.push_str(&rr.to_string());
            }
        }
        assert_eq!(a, b);
        assert_eq!(a, c.as_bytes());

        let fa = write_fasta(&recs, None, 8192);
        let mut b = Vec::new();
        let mut c = String::new();
        {
            let mut w = fasta::Writer::with_capacity(1, &mut b);
            for r in &recs {
                let rr = fasta::Record::with_attrs(&r.0, r.1.as_deref(), &r.2);
                w.write_record(&rr).unwrap();
                c.push_str(&rr.to_string());
            }
        }
        assert_eq!(fa, b);
        assert_eq!(fa, c.as_bytes());

        // reused record + reads after end
        let mut r = fastq::Reader::with_capacity(3, ChunkReader::new(&a, &[2, 5]));
        let mut record = fastq::Record::new();
        for w in &recs {
            r.read(&mut record).unwrap();
            assert!(record.id() == w.0 && record.desc() == w.1.as_deref());
            assert!(record.seq() == &w.2[..] && record.qual() == &w.3[..]);
        }
        for _ in 0..3 {
            r.read(&mut record).unwrap();
            assert!(record.is_empty());
        }
        let mut r = fasta::Reader::with_capacity(3, ChunkReader::new(&fa, &[2, 5]));
        let mut record = fasta::Record::new();
        for w in &recs {
            r.read(&mut record).unwrap();
            assert!(record.id() == w.0 && record.desc() == w.1.as_deref());
            assert!(record.seq() == &w.2[..]);
        }
        for _ in 0..3 {
            r.read(&mut record).unwrap();
            assert!(record.is_empty());
        }
    }
}

/// Wrapped FASTQ (hand made, consistent wrap of seq and qual, LF and CRLF),
/// with quality lines starting with '@' and '+'.
fn wrap_fastq(recs: &[Rec], wrap: usize) -> Vec<u8> {
    let mut v = Vec::new();
    for r in recs {
        v.push(b'@');
        v.extend_from_slice(r.0.as_bytes());
        if let Some(d) = &r.1 {
            v.push(b' ');
            v.extend_from_slice(d.as_bytes());
        }
        v.push(b'\n');
        for c in r.2.chunks(wrap) {
            v.extend_from_slice(c);
            v.push(b'\n');
        }
        v.extend_from_slice(b"+\n");
        for c in r.3.chunks(wrap) {
            v.extend_from_slice(c);
            v.push(b'\n');
        }
    }
    v
}

#[test]
fn ok_wrapped_fastq() {
    let mut rng = Rng(7);
    for _ in 0..1500 {
        let recs = gen_records(&mut rng);
        let wrap = 1 + rng.below(6);
        let data = wrap_fastq(&recs, wrap);
        for d in [data.clone(), crlf(&data)] {
            let got = read_fastq(&d, gen_cap(&mut rng), &gen_sizes(&mut rng));
            assert!(fastq_eq(&got, &recs), "{:?} {:?}", recs, got);
        }
    }
}

/// Truncation at every offset: no panic, terminates, every FASTQ record that passes
/// check() is the next original record (prefix, in order). Also for FASTA: no panic.
#[test]
fn ok_truncation_every_offset() {
    let mut rng = Rng(99);
    for round in 0..400 {
        let recs = gen_records(&mut rng);
        let base = write_fastq(&recs, 8192);
        let variants = [
            base.clone(),
            crlf(&base),
            wrap_fastq(&recs, 1 + rng.below(4)),
            crlf(&wrap_fastq(&recs, 1 + rng.below(4))),
        ];
        for data in variants.iter() {
            for cut in 0..=data.len() {
                let cap = gen_cap(&mut rng);
                let sizes = gen_sizes(&mut rng);
                let items: Vec<_> = if round % 2 == 0 {
                    read_fastq(&data[..cut], cap, &sizes)
                        .into_iter()
                        .map(|r| r.ok())
                        .collect()
                } else {
                    EitherRecords::new(BufReader::with_capacity(
                        cap,
                        ChunkReader::new(&data[..cut], &sizes),
                    ))
                    .map(|r| match r {
                        Ok(fastx::EitherRecord::FASTQ(q)) => Some(q),
                        Ok(_) => panic!("sniffer chose fasta"),
                        Err(_) => None,
                    })
                    .collect()
                };
                assert!(items.len() <= recs.len() + 1);
                let mut k = 0;
                for it in items.iter().flatten() {
                    if it.check().is_ok() {
                        assert!(k < recs.len(), "extra record {:?} cut {}", it, cut);
                        let w = &recs[k];
                        assert!(
                            it.id() == w.0
                                && it.desc() == w.1.as_deref()
                                && it.seq() == &w.2[..]
                                && it.qual() == &w.3[..],
                            "cut {} got {:?} want {:?}",
                            cut,
                            it,
                            w
                        );
                        k += 1;
                    }
                }
            }
        }
        let fa = write_fasta(&recs, Some(1 + rng.below(5)), 8192);
        for cut in 0..=fa.len() {
            let got = read_fasta(&fa[..cut], gen_cap(&mut rng), &gen_sizes(&mut rng));
            assert!(got.len() <= recs.len() + 1);
        }
    }
}

/// Arbitrary bytes: no panic, termination (bounded number of items).
#[test]
fn ok_garbage_no_panic_no_hang() {
    let mut rng = Rng(1234567);
    let alphabet: &[u8] = b">@+\n\r \tAC\xff\xc3\xa9\x00;I";
    for _ in 0..20000 {
        let len = rng.below(40);
        let data: Vec<u8> = (0..len)
            .map(|_| {
                if rng.below(5) == 0 {
                    rng.below(256) as u8
                } else {
                    alphabet[rng.below(alphabet.len())]
                }
            })
            .collect();
        let cap = gen_cap(&mut rng);
        let sizes = gen_sizes(&mut rng);
        let n = fasta::Reader::with_capacity(cap, ChunkReader::new(&data, &sizes))
            .records()
            .take(1000)
            .count();
        assert!(n <= len + 1);
        let n = fastq::Reader::with_capacity(cap, ChunkReader::new(&data, &sizes))
            .records()
            .take(1000)
            .count();
        assert!(n <= len + 1, "{:?}", data);
        let n = EitherRecords::new(BufReader::with_capacity(
            cap,
            ChunkReader::new(&data, &sizes),
        ))
        .take(1000)
        .count();
        assert!(n <= len + 1);
        // read() API of fastq: always reaches the empty record
        let mut r = fastq::Reader::with_capacity(cap, ChunkReader::new(&data, &sizes));
        let mut record = fastq::Record::new();
        let mut calls = 0;
        loop {
            calls += 1;
            assert!(calls <= len + 2);
            match r.read(&mut record) {
                Ok(()) if record.is_empty() => break,
                _ => {}
            }
        }
    }
    // very long lines
    let mut long = vec![b'@'];
    long.extend(std::iter::repeat(b'A').take(1 << 20));
    assert_eq!(read_fastq(&long, 1, &[4096]).len(), 1);
    long[0] = b'>';
    assert_eq!(read_fasta(&long, 1, &[4096]).len(), 1);
}

/// Unusual but valid ids/descriptions that DO round-trip.
#[test]
fn ok_unusual_headers() {
    let cases: Vec<Rec> = vec![
        rec(">id", Some(">desc"), b"A", b"@"),
        rec("@id", Some("@desc"), b"A", b"+"),
        rec("+", Some("+"), b"A", b"+"),
        rec("id", Some(" leading blank"), b"AC", b"+@"),
        rec("id", Some("\tleading tab"), b"AC", b"@+"),
        rec("id", Some("  two  blanks\tinside"), b"AC", b"II"),
        rec("ünï→", Some("dé sc 漢字"), b"AC", b"~!"),
        rec("\u{feff}id", Some("\u{200b}x"), b"AC", b"II"),
        rec("id", Some("\u{a0}x"), b"AC", b"II"),
        rec("a", None, b"@CGT", b"@@@@"),
        rec("a", None, b"A+@>", b"++++"),
    ];
    for c in &cases {
        let recs = vec![c.clone(), c.clone()];
        let fq = write_fastq(&recs, 1);
        for d in [fq.clone(), crlf(&fq)] {
            for cap in [1, 2, 3, 64] {
                let got = read_fastq(&d, cap, &[1, 3]);
                assert!(fastq_eq(&got, &recs), "{:?} -> {:?}", c, got);
            }
        }
        if c.2.contains(&b'>') {
            continue;
        }
        for wrap in [None, Some(1), Some(3), Some(usize::MAX)] {
            let fa = write_fasta(&recs, wrap, 1);
            for d in [fa.clone(), crlf(&fa)] {
                for cap in [1, 2, 3, 64] {
                    let got = read_fasta(&d, cap, &[1, 3]);
                    assert!(fasta_eq(&got, &recs), "{:?} -> {:?}", c, got);
                }
            }
        }
    }
}

/// get_kind / get_kind_seek, also at a non-zero offset and with 1-byte reads.
#[test]
fn ok_sniffer_variants() {
    let recs = vec![rec("id", Some("d"), b"ACGT", b"@+II")];
    let fq = write_fastq(&recs, 8192);
    let fa = write_fasta(&recs, Some(2), 8192);
    let (r, k) = fastx::get_kind(ChunkReader::new(&fq, &[1])).unwrap();
    assert_eq!(k, fastx::Kind::FASTQ);
    let got: Vec<_> = fastq::Reader::with_capacity(1, r).records().collect();
    assert!(fastq_eq(&got, &recs));
    let (r, k) = fastx::get_kind(ChunkReader::new(&fa, &[1])).unwrap();
    assert_eq!(k, fastx::Kind::FASTA);
    let got: Vec<_> = fasta::Reader::with_capacity(1, r).records().collect();
    assert!(fasta_eq(&got, &recs));

    let mut both = fa.clone();
    both.extend_from_slice(&fq);
    let mut cur = io::Cursor::new(both);
    assert_eq!(fastx::get_kind_seek(&mut cur).unwrap(), fastx::Kind::FASTA);
    assert_eq!(cur.position(), 0);
    cur.set_position(fa.len() as u64);
    assert_eq!(fastx::get_kind_seek(&mut cur).unwrap(), fastx::Kind::FASTQ);
    assert_eq!(cur.position(), fa.len() as u64);
    let got: Vec<_> = fastq::Reader::new(cur).records().collect();
    assert!(fastq_eq(&got, &recs));
}
