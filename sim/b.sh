#!/bin/bash
# developer helper: build and show only simio's own diagnostics
cd /verif/sim && cargo build --release --offline --message-format short 2>&1 | grep -E "^src/|^error|Finished|could not" | head -60
