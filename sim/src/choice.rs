//! The choice stream: the single source of every decision a simulated run makes.
//!
//! Generate mode draws from a PRNG seeded by (VERIF_SEED, property, scenario, run index) and logs
//! each value. Replay mode takes values from a recorded list (clamped to bound-1; 0 when the list
//! is exhausted) and never consults the PRNG. Convention: 0 is always the simplest alternative.

pub fn splitmix64(state: &mut u64) -> u64 {
    *state = state.wrapping_add(0x9E37_79B9_7F4A_7C15);
    let mut z = *state;
    z = (z ^ (z >> 30)).wrapping_mul(0xBF58_476D_1CE4_E5B9);
    z = (z ^ (z >> 27)).wrapping_mul(0x94D0_49BB_1331_11EB);
    z ^ (z >> 31)
}

/// FNV-1a over bytes; used for stable, process-independent hashing (never std's RandomState).
pub fn fnv1a(bytes: &[u8]) -> u64 {
    let mut h: u64 = 0xcbf2_9ce4_8422_2325;
    for b in bytes {
        h ^= *b as u64;
        h = h.wrapping_mul(0x0000_0100_0000_01b3);
    }
    h
}

pub fn mix(seed: u64, property: &str, scenario: &str, run: u64) -> u64 {
    let mut s = seed ^ 0x5851_F42D_4C95_7F2D;
    let a = splitmix64(&mut s) ^ fnv1a(property.as_bytes());
    let mut s2 = a;
    let b = splitmix64(&mut s2) ^ fnv1a(scenario.as_bytes()).rotate_left(17);
    let mut s3 = b;
    let c = splitmix64(&mut s3) ^ run.wrapping_mul(0xD6E8_FEB8_6659_FD93);
    let mut s4 = c;
    splitmix64(&mut s4)
}

struct Xoshiro {
    s: [u64; 4],
}

impl Xoshiro {
    fn new(seed: u64) -> Self {
        let mut sm = seed;
        let s = [
            splitmix64(&mut sm),
            splitmix64(&mut sm),
            splitmix64(&mut sm),
            splitmix64(&mut sm),
        ];
        Xoshiro { s }
    }
    fn next(&mut self) -> u64 {
        let result = self.s[0]
            .wrapping_add(self.s[3])
            .rotate_left(23)
            .wrapping_add(self.s[0]);
        let t = self.s[1] << 17;
        self.s[2] ^= self.s[0];
        self.s[3] ^= self.s[1];
        self.s[1] ^= self.s[2];
        self.s[0] ^= self.s[3];
        self.s[2] ^= t;
        self.s[3] = self.s[3].rotate_left(45);
        result
    }
}

enum Mode {
    Generate(Xoshiro),
    Replay { list: Vec<u64>, pos: usize },
}

pub struct Choices {
    mode: Mode,
    pub log: Vec<u64>,
}

impl Choices {
    pub fn generate(seed: u64) -> Self {
        Choices {
            mode: Mode::Generate(Xoshiro::new(seed)),
            log: Vec::with_capacity(256),
        }
    }

    pub fn replay(list: Vec<u64>) -> Self {
        Choices {
            mode: Mode::Replay { list, pos: 0 },
            log: Vec::with_capacity(256),
        }
    }

    /// A value in [0, bound). bound == 0 or 1 yields 0 and is *not* logged (no decision was made).
    pub fn draw(&mut self, bound: u64) -> u64 {
        if bound <= 1 {
            return 0;
        }
        let v = match &mut self.mode {
            Mode::Generate(rng) => {
                // multiply-shift: unbiased enough for simulation, and cheap
                ((rng.next() as u128 * bound as u128) >> 64) as u64
            }
            Mode::Replay { list, pos } => {
                let v = if *pos < list.len() { list[*pos] } else { 0 };
                *pos += 1;
                v.min(bound - 1)
            }
        };
        self.log.push(v);
        v
    }

    /// True with probability num/den; `false` is the simple alternative (value 0).
    pub fn chance(&mut self, num: u64, den: u64) -> bool {
        if num == 0 {
            return false;
        }
        // value 0 must mean "no": map draw d to event iff d >= den - num
        let d = self.draw(den);
        d >= den - num.min(den)
    }

    /// Pick from a slice; index 0 is the simplest.
    pub fn pick<'a, T>(&mut self, xs: &'a [T]) -> &'a T {
        &xs[self.draw(xs.len() as u64) as usize]
    }

    /// Inclusive range; lo is simplest.
    pub fn range(&mut self, lo: u64, hi: u64) -> u64 {
        debug_assert!(lo <= hi);
        lo + self.draw(hi - lo + 1)
    }

    /// Small-biased length: most of the mass near lo, occasionally up to hi.
    pub fn small(&mut self, lo: u64, hi: u64) -> u64 {
        if lo >= hi {
            return lo;
        }
        let span = hi - lo;
        let cap = match self.draw(4) {
            0 => span.min(3),
            1 => span.min(8),
            2 => span.min(20),
            _ => span,
        };
        lo + self.draw(cap + 1)
    }
}
