//! Batch runner: seeds → runs → verdicts; panic/livelock classification; minimisation; replay
//! files; evidence; known findings; watchdog.

use crate::choice::{mix, Choices};
use crate::world::{BudgetExceeded, ContractViolation, Counters, IoEv, World, W};
use serde_json::{json, Value};
use std::cell::RefCell;
use std::collections::{BTreeMap, HashSet};
use std::panic::{catch_unwind, AssertUnwindSafe};
use std::sync::atomic::{AtomicU64, Ordering};
use std::sync::{Arc, Mutex};
use std::time::Instant;

#[derive(Clone, Debug, PartialEq, Eq)]
pub struct Violation {
    pub clause: String,
    pub message: String,
}

pub type Verdict = Result<(), Violation>;

pub fn fail<T>(clause: &str, message: String) -> Result<T, Violation> {
    // messages quote what was written and read; with a key of 70 000 values that is megabytes
    let message = if message.len() > 6000 {
        let mut cut = 6000;
        while !message.is_char_boundary(cut) {
            cut -= 1;
        }
        format!("{}… (+{} bytes)", &message[..cut], message.len() - cut)
    } else {
        message
    };
    Err(Violation {
        clause: clause.to_string(),
        message,
    })
}

pub struct Scenario {
    pub name: &'static str,
    pub weight: u32,
    pub run: fn(&W) -> Verdict,
}

pub struct Property {
    pub id: &'static str,
    pub scenarios: Vec<Scenario>,
    pub panic_clause: &'static str,
    pub livelock_clause: &'static str,
    pub rule: &'static str,
    pub real: &'static [&'static str],
    pub stubs: &'static [&'static str],
    pub assumptions: &'static [&'static str],
    /// probes we expect a quick run to reach; a zero is reported as a warning
    pub expected_probes: &'static [&'static str],
    pub quick_runs: u64,
    pub thorough_runs: u64,
}

impl Property {
    pub fn table(&self) -> Vec<usize> {
        // developer aid (timing one scenario): SIMIO_ONLY=<scenario name>; never set by the checks
        let only = std::env::var("SIMIO_ONLY").ok();
        let mut t = Vec::new();
        for (i, s) in self.scenarios.iter().enumerate() {
            if let Some(o) = &only {
                if s.name != o {
                    continue;
                }
            }
            for _ in 0..s.weight {
                t.push(i);
            }
        }
        t
    }
    pub fn scenario_by_name(&self, name: &str) -> Option<&Scenario> {
        self.scenarios.iter().find(|s| s.name == name)
    }
}

// ---------------------------------------------------------------------------------------------
// panic capture

thread_local! {
    static LAST_PANIC: RefCell<Option<(String, String)>> = const { RefCell::new(None) };
    /// true while a simulated run is executing under catch_unwind on this thread
    static IN_RUN: std::cell::Cell<bool> = const { std::cell::Cell::new(false) };
}

pub fn install_panic_hook() {
    std::panic::set_hook(Box::new(|info| {
        let loc = info
            .location()
            .map(|l| format!("{}:{}", l.file(), l.line()))
            .unwrap_or_default();
        let msg = if let Some(s) = info.payload().downcast_ref::<&str>() {
            s.to_string()
        } else if let Some(s) = info.payload().downcast_ref::<String>() {
            s.clone()
        } else if info.payload().downcast_ref::<BudgetExceeded>().is_some() {
            "budget exceeded".to_string()
        } else if let Some(cv) = info.payload().downcast_ref::<ContractViolation>() {
            cv.0.clone()
        } else {
            "<non-string panic payload>".to_string()
        };
        if !IN_RUN.with(|f| f.get()) {
            // a panic of the harness outside any simulated run: never swallow it
            eprintln!("simio: harness panic at {}: {}", loc, msg);
        }
        LAST_PANIC.with(|p| *p.borrow_mut() = Some((loc, msg)));
    }));
}

pub struct RunOut {
    pub verdict: Verdict,
    pub harness_bug: Option<String>,
    pub choices: Vec<u64>,
    pub events: u64,
    pub bytes: u64,
    pub fired: Counters,
    pub probes: Counters,
    pub clauses: Counters,
    pub sig: u64,
    pub nontrivial: bool,
    pub trace: Vec<IoEv>,
    pub notes: Vec<(String, Value)>,
}

/// Runs of one batch are executed in *blocks* of BLOCK consecutive run indices, each block in a
/// thread of its own and in index order. Thread-local state that a change to the code under test
/// might introduce (scratch buffers, caches) can therefore leak only from earlier runs of the same
/// block, in a fixed order — which is what makes such a leak replayable (`prelude_runs` in the
/// replay file). Process-global state cannot be isolated this way; rust-bio's I/O layer has none.
pub const BLOCK: u64 = 64;

/// One simulated run in a fresh thread (used wherever single runs are re-executed: confirmation,
/// minimisation, replay, samples, the determinism self-check).
pub fn execute(prop: &Property, sc: &Scenario, ch: Choices, keep_trace: bool) -> RunOut {
    execute_after(prop, sc, ch, keep_trace, 0, &[])
}

/// As `execute`, but first re-executes the given earlier runs (generate mode, results discarded)
/// in the same fresh thread, so that thread-local state they leave behind is present.
pub fn execute_after(prop: &Property, sc: &Scenario, ch: Choices, keep_trace: bool, seed: u64, prelude: &[u64]) -> RunOut {
    let table = prop.table();
    std::thread::scope(|s| {
        std::thread::Builder::new()
            .stack_size(4 << 20)
            .spawn_scoped(s, move || {
                for &r in prelude {
                    let psc = &prop.scenarios[table[(r % table.len() as u64) as usize]];
                    let _ = execute_here(prop, psc, Choices::generate(run_seed(seed, prop, psc, r)), false);
                }
                execute_here(prop, sc, ch, keep_trace)
            })
            .expect("sim: cannot spawn a run thread")
            .join()
            .expect("sim: run thread died outside catch_unwind")
    })
}

pub fn execute_here(prop: &Property, sc: &Scenario, ch: Choices, keep_trace: bool) -> RunOut {
    let w = World::new(ch, keep_trace);
    w.sig_mix(crate::choice::fnv1a(sc.name.as_bytes()));
    LAST_PANIC.with(|p| *p.borrow_mut() = None);
    IN_RUN.with(|f| f.set(true));
    let res = crate::capped::scoped(|| catch_unwind(AssertUnwindSafe(|| (sc.run)(&w))));
    IN_RUN.with(|f| f.set(false));
    let mut harness_bug = None;
    let verdict = match res {
        Ok(v) => v,
        Err(payload) => {
            let (loc, msg) = LAST_PANIC
                .with(|p| p.borrow_mut().take())
                .unwrap_or_default();
            if payload.downcast_ref::<BudgetExceeded>().is_some() {
                Err(Violation {
                    clause: prop.livelock_clause.to_string(),
                    message: format!(
                        "progress budget exhausted after {} I/O events: the consumer keeps calling the stream without finishing",
                        w.ev.get()
                    ),
                })
            } else if let Some(cv) = payload.downcast_ref::<ContractViolation>() {
                Err(Violation {
                    clause: prop.panic_clause.to_string(),
                    message: format!("the code under test broke an I/O trait contract (would panic or corrupt data with std's BufReader): {}", cv.0),
                })
            } else if loc.starts_with("src/") || loc.starts_with("sim/src/") {
                harness_bug = Some(format!("harness panic at {}: {}", loc, msg));
                Ok(())
            } else {
                Err(Violation {
                    clause: prop.panic_clause.to_string(),
                    message: format!("panic at {}: {}", loc, msg),
                })
            }
        }
    };
    let fired = std::mem::take(&mut *w.fired.borrow_mut());
    let probes = std::mem::take(&mut *w.probes.borrow_mut());
    let clauses = std::mem::take(&mut *w.clauses.borrow_mut());
    let nontrivial = probes.get("workload_nonempty") > 0 && !fired.items.is_empty();
    let choices = std::mem::take(&mut w.ch.borrow_mut().log);
    let trace = std::mem::take(&mut *w.trace.borrow_mut());
    let notes = std::mem::take(&mut *w.notes.borrow_mut());
    RunOut {
        verdict,
        harness_bug,
        choices,
        events: w.ev.get(),
        bytes: w.bytes.get(),
        fired,
        probes,
        clauses,
        sig: w.sig.get(),
        nontrivial,
        trace,
        notes,
    }
}

/// Stable digest of one run, for the determinism self-test.
pub fn digest(out: &RunOut) -> u64 {
    let mut s = String::new();
    for c in &out.choices {
        s.push_str(&format!("{},", c));
    }
    s.push('|');
    s.push_str(&format!("{}|{}|{}|", out.events, out.bytes, out.sig));
    match &out.verdict {
        Ok(()) => s.push_str("ok"),
        Err(v) => {
            s.push_str(&v.clause);
            s.push(':');
            s.push_str(&v.message);
        }
    }
    let mut f: Vec<_> = out.fired.items.iter().collect();
    f.sort();
    s.push_str(&format!("{:?}", f));
    let mut p: Vec<_> = out.probes.items.iter().collect();
    p.sort();
    s.push_str(&format!("{:?}", p));
    crate::choice::fnv1a(s.as_bytes())
}

// ---------------------------------------------------------------------------------------------
// aggregation

#[derive(Default)]
pub struct Agg {
    pub runs: u64,
    pub events: u64,
    pub bytes: u64,
    pub nontrivial_runs: u64,
    pub fired: BTreeMap<String, u64>,
    pub fired_runs: BTreeMap<String, u64>,
    pub probes: BTreeMap<String, u64>,
    pub clauses: BTreeMap<String, u64>,
    pub per_scenario: BTreeMap<String, u64>,
    pub sigs: HashSet<u64>,
    /// clause -> (smallest failing run index, scenario idx, count)
    pub violations: BTreeMap<String, (u64, usize, u64)>,
    /// scenario idx -> smallest non-trivial run index
    pub sample_idx: BTreeMap<usize, u64>,
    pub harness_bugs: Vec<String>,
    pub digest_xor: u64,
    pub digest_sum: u64,
}

impl Agg {
    fn absorb(&mut self, run: u64, sci: usize, sc: &Scenario, out: &RunOut) {
        self.runs += 1;
        self.events += out.events;
        self.bytes += out.bytes;
        for (k, v) in &out.fired.items {
            *self.fired.entry(k.to_string()).or_default() += v;
            *self.fired_runs.entry(k.to_string()).or_default() += 1;
        }
        for (k, v) in &out.probes.items {
            *self.probes.entry(k.to_string()).or_default() += v;
        }
        for (k, v) in &out.clauses.items {
            *self.clauses.entry(k.to_string()).or_default() += v;
        }
        *self.per_scenario.entry(sc.name.to_string()).or_default() += 1;
        if out.nontrivial {
            self.nontrivial_runs += 1;
            self.sigs.insert(out.sig);
            let e = self.sample_idx.entry(sci).or_insert(run);
            if run < *e {
                *e = run;
            }
        }
        if let Err(v) = &out.verdict {
            let e = self
                .violations
                .entry(v.clause.clone())
                .or_insert((run, sci, 0));
            if run < e.0 {
                e.0 = run;
                e.1 = sci;
            }
            e.2 += 1;
        }
        if let Some(h) = &out.harness_bug {
            if self.harness_bugs.len() < 5 {
                self.harness_bugs
                    .push(format!("run {} scenario {}: {}", run, sc.name, h));
            }
        }
        let d = digest(out) ^ run.wrapping_mul(0x9E37_79B9_7F4A_7C15);
        self.digest_xor ^= d;
        self.digest_sum = self.digest_sum.wrapping_add(d);
    }

    fn merge(&mut self, o: Agg) {
        self.runs += o.runs;
        self.events += o.events;
        self.bytes += o.bytes;
        self.nontrivial_runs += o.nontrivial_runs;
        for (k, v) in o.fired {
            *self.fired.entry(k).or_default() += v;
        }
        for (k, v) in o.fired_runs {
            *self.fired_runs.entry(k).or_default() += v;
        }
        for (k, v) in o.probes {
            *self.probes.entry(k).or_default() += v;
        }
        for (k, v) in o.clauses {
            *self.clauses.entry(k).or_default() += v;
        }
        for (k, v) in o.per_scenario {
            *self.per_scenario.entry(k).or_default() += v;
        }
        self.sigs.extend(o.sigs);
        for (k, v) in o.violations {
            let e = self.violations.entry(k).or_insert((v.0, v.1, 0));
            if v.0 < e.0 {
                e.0 = v.0;
                e.1 = v.1;
            }
            e.2 += v.2;
        }
        for (k, v) in o.sample_idx {
            let e = self.sample_idx.entry(k).or_insert(v);
            if v < *e {
                *e = v;
            }
        }
        for h in o.harness_bugs {
            if self.harness_bugs.len() < 5 {
                self.harness_bugs.push(h);
            }
        }
        self.digest_xor ^= o.digest_xor;
        self.digest_sum = self.digest_sum.wrapping_add(o.digest_sum);
    }
}

pub fn run_seed(seed: u64, prop: &Property, sc: &Scenario, run: u64) -> u64 {
    mix(seed, prop.id, sc.name, run)
}

/// What the watchdog needs to know about a worker.
struct Slot {
    run: AtomicU64,
    started_ms: AtomicU64,
}

pub struct BatchCfg {
    pub seed: u64,
    /// first run index (normally 0; used by crash isolation)
    pub from: u64,
    pub runs: u64,
    pub threads: usize,
    pub per_run_digests: bool,
    pub hang_secs: u64,
    pub replay_dir: String,
}

pub struct BatchOut {
    pub agg: Agg,
    pub digests: Vec<(u64, u64)>,
    pub wall_s: f64,
}

pub fn run_batch(prop: &'static Property, cfg: &BatchCfg) -> BatchOut {
    let table = Arc::new(prop.table());
    let next = Arc::new(AtomicU64::new(cfg.from));
    let t0 = Instant::now();
    let slots: Arc<Vec<Slot>> = Arc::new(
        (0..cfg.threads)
            .map(|_| Slot {
                run: AtomicU64::new(u64::MAX),
                started_ms: AtomicU64::new(0),
            })
            .collect(),
    );
    let done = Arc::new(AtomicU64::new(0));
    // watchdog: wall clock is used for nothing but this backstop
    {
        let slots = slots.clone();
        let done = done.clone();
        let table = table.clone();
        let hang_ms = cfg.hang_secs * 1000;
        let seed = cfg.seed;
        let replay_dir = cfg.replay_dir.clone();
        std::thread::spawn(move || loop {
            std::thread::sleep(std::time::Duration::from_millis(500));
            if done.load(Ordering::Relaxed) == 1 {
                return;
            }
            let now = t0.elapsed().as_millis() as u64;
            for s in slots.iter() {
                let run = s.run.load(Ordering::Relaxed);
                let st = s.started_ms.load(Ordering::Relaxed);
                if run != u64::MAX && now > st && now - st > hang_ms {
                    let sci = table[(run % table.len() as u64) as usize];
                    let sc = &prop.scenarios[sci];
                    let path = format!(
                        "{}/{}/{}-s{}-r{}.json",
                        replay_dir,
                        prop.id,
                        prop.livelock_clause.replace('.', "_"),
                        seed,
                        run
                    );
                    let v = json!({
                        "property": prop.id, "scenario": sc.name, "clause": prop.livelock_clause,
                        "seed": seed, "run": run, "choices": Value::Null,
                        "tier": if crate::world::thorough() { "thorough" } else { "quick" },
                        "message": format!("run did not finish within {} s of wall-clock (normal: < 1 ms): CPU loop without I/O", hang_ms / 1000),
                    });
                    let _ = std::fs::create_dir_all(format!("{}/{}", replay_dir, prop.id));
                    let _ = std::fs::write(&path, serde_json::to_string_pretty(&v).unwrap());
                    println!("VIOLATION property={} replay={}", prop.id, path);
                    std::process::exit(1);
                }
            }
        });
    }

    let results: Arc<Mutex<Vec<(Agg, Vec<(u64, u64)>)>>> = Arc::new(Mutex::new(Vec::new()));
    let mut handles = Vec::new();
    for wi in 0..cfg.threads {
        let table = table.clone();
        let next = next.clone();
        let slots = slots.clone();
        let results = results.clone();
        let runs = cfg.runs;
        let seed = cfg.seed;
        let per_run = cfg.per_run_digests;
        handles.push(
            std::thread::Builder::new()
                .stack_size(16 << 20)
                .spawn(move || {
                    let mut agg = Agg::default();
                    let mut digs = Vec::new();
                    loop {
                        let start = next.fetch_add(BLOCK, Ordering::Relaxed);
                        if start >= runs {
                            break;
                        }
                        // one block = one fresh thread (see BLOCK)
                        let (agg_ref, digs_ref, table_ref, slots_ref) = (&mut agg, &mut digs, &table, &slots);
                        std::thread::scope(|s| {
                            std::thread::Builder::new()
                                .stack_size(4 << 20)
                                .spawn_scoped(s, move || {
                                    for run in start..(start + BLOCK).min(runs) {
                                        let sci = table_ref[(run % table_ref.len() as u64) as usize];
                                        let sc = &prop.scenarios[sci];
                                        slots_ref[wi].started_ms.store(t0.elapsed().as_millis() as u64, Ordering::Relaxed);
                                        slots_ref[wi].run.store(run, Ordering::Relaxed);
                                        let ch = Choices::generate(run_seed(seed, prop, sc, run));
                                        let out = execute_here(prop, sc, ch, false);
                                        slots_ref[wi].run.store(u64::MAX, Ordering::Relaxed);
                                        if per_run {
                                            digs_ref.push((run, digest(&out)));
                                        }
                                        agg_ref.absorb(run, sci, sc, &out);
                                    }
                                })
                                .expect("sim: cannot spawn a block thread")
                                .join()
                                .expect("sim: block thread died outside catch_unwind");
                        });
                    }
                    results.lock().unwrap().push((agg, digs));
                })
                .unwrap(),
        );
    }
    for h in handles {
        h.join().expect("worker thread died");
    }
    done.store(1, Ordering::Relaxed);
    let mut agg = Agg::default();
    let mut digests = Vec::new();
    for (a, d) in results.lock().unwrap().drain(..) {
        agg.merge(a);
        digests.extend(d);
    }
    digests.sort();
    BatchOut {
        agg,
        digests,
        wall_s: t0.elapsed().as_secs_f64(),
    }
}

// ---------------------------------------------------------------------------------------------
// minimisation

pub struct Minimised {
    pub choices: Vec<u64>,
    pub violation: Violation,
    pub execs: u64,
}

/// Shrink a failing choice list while the same clause keeps failing.
pub fn minimise(prop: &Property, sc: &Scenario, choices: Vec<u64>, clause: &str, events_of_original: u64) -> Minimised {
    let execs_c = std::cell::Cell::new(0u64);
    let try_list = |list: &[u64]| -> Option<(Vec<u64>, Violation)> {
        execs_c.set(execs_c.get() + 1);
        let out = execute(prop, sc, Choices::replay(list.to_vec()), false);
        match out.verdict {
            Err(v) if v.clause == clause => {
                // A candidate is kept only if it fails the same way a second time: code under test
                // that has entropy of its own (a change that builds a fresh hash map and iterates
                // it) must not steer the shrinking towards an input that fails only now and then.
                let again = execute(prop, sc, Choices::replay(list.to_vec()), false);
                if !matches!(&again.verdict, Err(v2) if v2.clause == clause) {
                    return None;
                }
                // canonical form: what was actually consumed, trailing zeros dropped
                let mut log = out.choices;
                while log.last() == Some(&0) {
                    log.pop();
                }
                Some((log, v))
            }
            _ => None,
        }
    };
    // The starting list gets several attempts: if the code under test has entropy of its own, the
    // clause may hold in one execution of the very list that violated it in the batch.
    let mut start = None;
    for _ in 0..6 {
        start = try_list(&choices);
        if start.is_some() {
            break;
        }
    }
    let (mut best, mut viol) = match start {
        Some(x) => x,
        None => {
            return Minimised {
                choices,
                violation: Violation {
                    clause: clause.to_string(),
                    message: "<did not reproduce in replay mode>".into(),
                },
                execs: 1,
            }
        }
    };
    // deterministic work bound: about 1.5e9 simulated I/O events in total, 200..=5000 re-executions
    #[allow(non_snake_case)]
    let MAX_EXECS: u64 = (1_500_000_000 / events_of_original.max(1)).clamp(200, 5000);
    let simpler = |a: &[u64], b: &[u64]| -> bool {
        // strictly simpler: shorter, or same length and lexicographically smaller sum-wise
        if a.len() != b.len() {
            return a.len() < b.len();
        }
        a.iter().zip(b.iter()).any(|(x, y)| x != y)
            && a.iter().map(|x| *x as u128).sum::<u128>() < b.iter().map(|x| *x as u128).sum::<u128>()
    };
    let mut improved = true;
    let mut budget_hit = false;
    while improved && !budget_hit {
        improved = false;
        // pass 1: delete spans
        let mut size = (best.len() / 2).max(1);
        loop {
            let mut i = 0;
            while i < best.len() {
                if best.len() <= 1 {
                    break;
                }
                let end = (i + size).min(best.len());
                let mut cand = best[..i].to_vec();
                cand.extend_from_slice(&best[end..]);
                let mut ok = false;
                if let Some((l, v)) = try_list(&cand) {
                    if simpler(&l, &best) {
                        best = l;
                        viol = v;
                        improved = true;
                        ok = true;
                    }
                }
                if !ok {
                    i += size;
                }
                if execs_c.get() >= MAX_EXECS {
                    budget_hit = true;
                    break;
                }
            }
            if size == 1 || budget_hit {
                break;
            }
            size /= 2;
        }
        if budget_hit {
            break;
        }
        // pass 2: zero spans
        let mut size = (best.len() / 2).max(1);
        loop {
            let mut i = 0;
            while i < best.len() {
                let end = (i + size).min(best.len());
                if best[i..end].iter().any(|x| *x != 0) {
                    let mut cand = best.clone();
                    for x in cand[i..end].iter_mut() {
                        *x = 0;
                    }
                    if let Some((l, v)) = try_list(&cand) {
                        if simpler(&l, &best) {
                            best = l;
                            viol = v;
                            improved = true;
                        }
                    }
                    if execs_c.get() >= MAX_EXECS {
                        budget_hit = true;
                        break;
                    }
                }
                i += size;
            }
            if size == 1 || budget_hit {
                break;
            }
            size /= 2;
        }
        if budget_hit {
            break;
        }
        // pass 2b: shorten a counted list — lower the count at i by one and delete one of the
        // choices it governs (string lengths, column counts: "n, then n elements")
        let mut i = 0;
        while i < best.len() {
            let cur = best[i];
            if cur > 0 {
                let c = cur as usize;
                for j in [i + c, i + c + 1, i + 1, i + 2] {
                    if j <= i || j >= best.len() {
                        continue;
                    }
                    let mut cand = best.clone();
                    cand[i] = cur - 1;
                    cand.remove(j);
                    if let Some((l, v)) = try_list(&cand) {
                        if simpler(&l, &best) {
                            best = l;
                            viol = v;
                            improved = true;
                            break;
                        }
                    }
                }
                if execs_c.get() >= MAX_EXECS {
                    budget_hit = true;
                    break;
                }
            }
            i += 1;
        }
        if budget_hit {
            break;
        }
        // pass 3: lower single values
        let mut i = 0;
        while i < best.len() {
            let cur = best[i];
            if cur > 0 {
                for cand_v in [0, cur / 2, cur - 1] {
                    if cand_v >= cur || i >= best.len() {
                        continue;
                    }
                    let mut cand = best.clone();
                    cand[i] = cand_v;
                    if let Some((l, v)) = try_list(&cand) {
                        if simpler(&l, &best) {
                            best = l;
                            viol = v;
                            improved = true;
                            break;
                        }
                    }
                }
                if execs_c.get() >= MAX_EXECS {
                    budget_hit = true;
                    break;
                }
            }
            i += 1;
        }
    }
    Minimised {
        choices: best,
        violation: viol,
        execs: execs_c.get(),
    }
}

// ---------------------------------------------------------------------------------------------
// decoding a run for humans (replay files, samples)

pub fn trace_json(trace: &[IoEv]) -> Value {
    // compact: "<event#> <endpoint>.<call>(<requested>)=<transferred|EINTR|EIO> @<offset>"
    let lim = 80;
    let mut v: Vec<Value> = trace
        .iter()
        .take(lim)
        .map(|e| {
            let got = match e.got {
                -1 => "EINTR".to_string(),
                -2 => "EIO".to_string(),
                -3 => "EINVAL".to_string(),
                n => n.to_string(),
            };
            json!(format!("{} {}.{}({})={} @{}", e.ev, e.ep, e.call, e.want, got, e.pos))
        })
        .collect();
    if trace.len() > lim {
        v.push(json!(format!("… {} more events", trace.len() - lim)));
    }
    Value::Array(v)
}

pub fn decoded_json(out: &RunOut) -> Value {
    let mut m = serde_json::Map::new();
    for (k, v) in &out.notes {
        m.insert(k.clone(), v.clone());
    }
    let mut fired = serde_json::Map::new();
    for (k, v) in &out.fired.items {
        fired.insert(k.to_string(), json!(v));
    }
    m.insert("faults_fired".into(), Value::Object(fired));
    m.insert("io_events".into(), json!(out.events));
    m.insert("io_trace".into(), trace_json(&out.trace));
    Value::Object(m)
}

pub fn replay_file_json(
    prop: &Property,
    sc: &Scenario,
    seed: u64,
    run: u64,
    choices: &[u64],
    v: &Violation,
    original_len: usize,
    execs: u64,
) -> Value {
    let out = execute(prop, sc, Choices::replay(choices.to_vec()), true);
    json!({
        "property": prop.id,
        "scenario": sc.name,
        "clause": v.clause,
        "seed": seed,
        "run": run,
        "choices": choices,
        "message": v.message,
        "minimisation": {"original_choices": original_len, "minimised_choices": choices.len(), "re_executions": execs},
        "decoded": decoded_json(&out),
    })
}

/// Returns (reproduced, clause, message)
pub fn replay(prop: &Property, file: &Value) -> Result<(bool, String, String), String> {
    let scn = file["scenario"].as_str().ok_or("replay file: no scenario")?;
    let sc = prop
        .scenario_by_name(scn)
        .ok_or_else(|| format!("replay file: unknown scenario {}", scn))?;
    let clause = file["clause"].as_str().ok_or("replay file: no clause")?;
    let ch = match &file["choices"] {
        Value::Array(a) => Choices::replay(a.iter().map(|x| x.as_u64().unwrap_or(0)).collect()),
        _ => {
            let seed = file["seed"].as_u64().ok_or("replay file: no seed")?;
            let run = file["run"].as_u64().ok_or("replay file: no run")?;
            Choices::generate(run_seed(seed, prop, sc, run))
        }
    };
    let prelude: Vec<u64> = file["prelude_runs"]
        .as_array()
        .map(|a| a.iter().filter_map(|x| x.as_u64()).collect())
        .unwrap_or_default();
    let seed = file["seed"].as_u64().unwrap_or(0);
    let out = execute_after(prop, sc, ch, true, seed, &prelude);
    if let Some(h) = out.harness_bug {
        return Err(h);
    }
    match out.verdict {
        Err(v) => Ok((v.clause == clause, v.clause, v.message)),
        Ok(()) => Ok((false, String::new(), "run completed without violation".into())),
    }
}

// ---------------------------------------------------------------------------------------------
// known findings

pub struct Known {
    pub entries: Vec<Value>,
}

impl Known {
    pub fn load(path: &str) -> Result<Known, String> {
        match std::fs::read_to_string(path) {
            Ok(s) => {
                let v: Value =
                    serde_json::from_str(&s).map_err(|e| format!("{}: {}", path, e))?;
                let entries = v["findings"].as_array().cloned().unwrap_or_default();
                Ok(Known { entries })
            }
            Err(e) if e.kind() == std::io::ErrorKind::NotFound => Ok(Known { entries: vec![] }),
            Err(e) => Err(format!("{}: {}", path, e)),
        }
    }

    /// An *open* entry matches when property and clause agree and every listed substring occurs
    /// in the minimised message resp. the minimised decoded workload. `fixed` entries never match.
    pub fn matches(&self, prop: &str, clause: &str, message: &str, decoded: &Value) -> Option<String> {
        let dec = decoded.to_string();
        for e in &self.entries {
            if e["status"].as_str() != Some("open") {
                continue;
            }
            if e["property"].as_str() != Some(prop) || e["clause"].as_str() != Some(clause) {
                continue;
            }
            let m = &e["match"];
            let all = |key: &str, hay: &str| -> bool {
                m[key]
                    .as_array()
                    .map(|a| a.iter().all(|s| s.as_str().map(|s| hay.contains(s)).unwrap_or(false)))
                    .unwrap_or(true)
            };
            let has_any = m["message_contains"].is_array() || m["decoded_contains"].is_array();
            if has_any && all("message_contains", message) && all("decoded_contains", &dec) {
                return Some(e["what"].as_str().unwrap_or("").to_string());
            }
        }
        None
    }
}
