//! C11 — FASTA/FASTQ round-trip is lossless, layout-independent and truncation-safe.
//!
//! producer (bio writer over SimWrite) → storage (identity | CRLF | foreign re-layout | cut |
//! corruption) → consumer (bio reader over SimRead / SimBufRead / SimSeekRead).

use crate::gen::{bytes_from, magic_size, near_magic, show, split_points, string_from};
use crate::runner::{fail, Property, Scenario, Verdict};
use crate::world::{IoCfg, SimBufRead, SimRead, SimSeekRead, SimWrite, World, W};
use bio::io::fasta::FastaRead;
use bio::io::fastq::FastqRead;
use bio::io::{fasta, fastq, fastx};
use serde_json::json;
use std::cell::RefCell;
use std::io::{self, BufRead, BufReader, BufWriter, Write};
use std::rc::Rc;
use std::sync::OnceLock;

#[derive(Clone, Debug, PartialEq, Eq)]
pub struct Rec {
    pub id: String,
    pub desc: Option<String>,
    pub seq: Vec<u8>,
    pub qual: Vec<u8>, // empty for FASTA
}

impl Rec {
    fn json(&self) -> serde_json::Value {
        json!({"id": self.id, "desc": self.desc, "seq": show(&self.seq), "qual": show(&self.qual)})
    }
}

#[derive(Clone, Copy, PartialEq, Eq, Debug)]
pub enum Kind {
    Fasta,
    Fastq,
}

/// id alphabet: 'a' first (simplest), then every printable ASCII character and some multi-byte ones.
/// No Unicode white space.
fn id_chars() -> &'static [char] {
    static A: OnceLock<Vec<char>> = OnceLock::new();
    A.get_or_init(|| {
        let mut v = vec!['a', 'b', 'Z', '0', '_', '>', '@', '+'];
        for c in 33u8..=126 {
            if !v.contains(&(c as char)) {
                v.push(c as char);
            }
        }
        // 'à' 'Å' '†': the last UTF-8 byte (A0, 85) read as Latin-1 is white space
        v.extend(['é', 'ß', '中', '😀', '\u{7f}', '\u{200b}', 'ı', '\u{301}', 'à', 'Å', '†']);
        v.extend(crate::gen::LOW_BYTE_SPECIAL);
        v
    })
}

/// description alphabet: printable ASCII, blank, tab, a few non-line-break controls, multi-byte
/// characters including non-breaking and ideographic space (white space, but not line breaks).
fn desc_chars() -> &'static [char] {
    static A: OnceLock<Vec<char>> = OnceLock::new();
    A.get_or_init(|| {
        let mut v = vec!['d', 'e', ' ', '\t', '>', '@', '+', '='];
        for c in 33u8..=126 {
            if !v.contains(&(c as char)) {
                v.push(c as char);
            }
        }
        v.extend(['é', '中', '😀', '\u{a0}', '\u{3000}', '\u{1}', '\u{1b}', '\u{7f}', '\u{2003}', '\u{feff}', 'à', 'Å', '†']);
        v.extend(crate::gen::LOW_BYTE_SPECIAL);
        v
    })
}

const SEQ_CHARS: &[u8] = b"ACGTNacgtnRYKMSWBDHVUXrykmswbdhvux*-.EFILPQZefilpqzJOjo";

#[derive(Clone, Copy, PartialEq, Eq, Debug)]
enum Scale {
    Small,
    /// sequences up to 20 000 (crosses the 8 KiB buffers for real)
    Large,
    /// up to 300 small records
    Many,
    /// one sequence up to 200 000 and headers up to 10 000 characters (crosses 64 KiB)
    Huge,
}

fn gen_scale(w: &World) -> Scale {
    // quick: 12/600 large, 6/600 many, 2/600 huge; thorough: 40, 30, 12 of 600
    let (l, m, h) = if crate::world::thorough() { (40, 30, 12) } else { (12, 6, 2) };
    let d = w.draw(600);
    if d < 600 - l - m - h {
        Scale::Small
    } else if d < 600 - m - h {
        Scale::Large
    } else if d < 600 - h {
        Scale::Many
    } else {
        Scale::Huge
    }
}

/// Long residue / quality strings come from a two-draw pattern, not one draw per byte.
fn pattern_seq(w: &World, len: usize) -> Vec<u8> {
    let a = w.draw(SEQ_CHARS.len() as u64) as usize;
    let b = 1 + w.draw(7) as usize;
    (0..len).map(|i| SEQ_CHARS[(a + i * b + i / 11 + i / 257) % SEQ_CHARS.len()]).collect()
}
fn pattern_qual(w: &World, len: usize) -> Vec<u8> {
    let a = w.draw(94) as usize;
    let b = 1 + w.draw(11) as usize;
    (0..len).map(|i| 33 + ((a + i * b + i / 13 + i / 251) % 94) as u8).collect()
}

fn gen_records(w: &World, kind: Kind, scale: Scale, magic: Option<usize>, edge_desc: bool) -> Vec<Rec> {
    let mut v: Vec<Rec> = Vec::new();
    // (1 many-records run in 12: thousands of records, so that "the 1000th record" and totals that
    // cross 2^16 are reached)
    let thousands = scale == Scale::Many && w.chance(1, 12);
    if thousands {
        w.probe("thousands_of_records");
    }
    let max_recs = if thousands { 4000 } else if scale == Scale::Many { 300 } else { 6 };
    // 1 many-records run in 3: every read has the same length, as an instrument run writes them
    let fixed_len: Option<usize> = if scale == Scale::Many && w.chance(1, 3) {
        w.probe("all_reads_of_one_length");
        Some(*w.pick(&[36usize, 50, 100, 150, 1, 2, 76, 251]))
    } else {
        None
    };
    // 1 run in 6 uses read names as sequencers write them: a shared run prefix plus a counter of
    // varying width, and descriptions made of short words separated by single blanks — neighbouring
    // headers then share long prefixes and have blanks at many offsets
    let realistic: Option<String> = if w.chance(1, 6) {
        w.probe("realistic_read_names");
        Some(format!("{}{}", string_from(w, &['S', 'R', 'r', 'e', 'a', 'd', '_', '0', '1'], 5, 10), *w.pick(&[".", "_", ":", "/"])))
    } else {
        None
    };
    loop {
        let go = if scale == Scale::Many {
            (v.len() as u64) < max_recs && if thousands { w.chance(1500, 1501) } else { w.chance(60, 61) }
        } else {
            w.more(v.len() as u64, max_recs)
        };
        if !go {
            break;
        }
        let id = if realistic.is_none() && w.chance(1, 15) {
            // identifiers shaped as databases and other formats write them: bars, colons,
            // semicolons, version suffixes, region syntax
            w.probe("id_shaped_like_a_database_identifier");
            let shape = *w.pick(&[
                "sp|P12345|NAME_HUMAN", "gi|12345|ref|NM_000001.1|", "P1;CRAB_ANAPL", "DL;x", "N1;y", "lcl|seq1", "gnl|db|id", "tr|Q9XYZ1|Q9XYZ1_MOUSE", "NC_000001.11",
                "ENST00000456328.2", "chr1:100-200", "chr1:100-200(+)", "@SQ", "read/1", "read/2", "M01234:56:000000000-ABCDE:1:1101:15589:1332", "SRR000001.1", "1", "*", "=",
            ]);
            if w.chance(1, 2) { shape.to_string() } else { format!("{}{}", shape, string_from(w, id_chars(), 1, 3)) }
        } else if let Some(prefix) = &realistic {
            format!("{}{}", prefix, *w.pick(&["1", "10", "2", "100", "12345", "11", "3/1", "3/2", ""]))
        } else if scale == Scale::Huge && w.chance(1, 4) {
            string_from(w, id_chars(), 1, 3000)
        } else {
            string_from(w, id_chars(), 1, 8)
        };
        let desc = if w.chance(1, 2) {
            let mut d = if scale == Scale::Huge && w.chance(1, 4) && w.take_big(3 << 20) {
                // a header line of boundary length up to 2 MiB (one drawn character repeated: the
                // length matters here, not the content)
                let n = *w.pick(&[65_536usize, 65_535, 65_537, 1 << 20, (1 << 20) + 1, (1 << 20) + 5000, 1 << 21, 300_000]);
                let c = *w.pick(desc_chars());
                let c = if c.is_whitespace() { 'x' } else { c };
                w.probe("header_longer_than_64k");
                std::iter::repeat(c).take(n).collect()
            } else if scale == Scale::Huge && w.chance(1, 2) {
                string_from(w, desc_chars(), 1, 10_000)
            } else if w.chance(1, 20) {
                // key=value annotations as tools write them into headers, with extreme values
                let mut d = String::new();
                let n = 1 + w.draw(3);
                for k in 0..n {
                    if k > 0 {
                        d.push(' ');
                    }
                    d.push_str(*w.pick(&[
                        "len=12", "len=18446744073709551615", "length=4294967296", "len=99999999999999999999", "size=0", "LN:1000000000000",
                        "score=1e308", "strand=-", "offset=-1", "count=007", "[organism=x]", "len=", "=len", "length:65536",
                        // what sequencers, archives and protein databases put after the id
                        "1:N:0:ATCACG", "2:Y:18:ATCACG+GGCTAC", "length=36", "OS=Homo sapiens OX=9606 GN=X PE=1 SV=2", "rc", "/1", "+", "@", ">",
                        "range=chr1:1-100 5'pad=0 3'pad=0 strand=+ repeatMasking=none", "dna:chromosome chromosome:GRCh38:1:1:248956422:1 REF",
                    ]));
                }
                w.probe("description_with_annotation_words");
                d
            } else if realistic.is_some() {
                // short words separated by single blanks
                let mut d = String::new();
                let words = 1 + w.draw(6);
                for k in 0..words {
                    if k > 0 {
                        d.push(' ');
                    }
                    d.push_str(&string_from(w, &['a', 'b', '1', '=', 'x', ':'], 1, 3));
                }
                d
            } else {
                string_from(w, desc_chars(), 1, 12)
            };
            // Descriptions that end in white space, or are empty, are valid by the letter of the
            // property ("optional description without line breaks") but are not preserved by the
            // readers (known finding K1, DESIGN §10.3). They are generated only where asked for
            // (plain round-trip scenarios, 1 description in 25) so that the finding never hides
            // behind, or hides, another clause.
            if edge_desc && w.chance(1, 25) {
                match w.draw(3) {
                    0 => d.clear(),
                    1 => d.push(' '),
                    _ => d.push(*w.pick(&['\t', ' ', '\u{a0}', '\u{3000}'])),
                }
                w.probe("description_empty_or_ending_in_whitespace");
            } else if d.chars().last().map(|c| c.is_whitespace()).unwrap_or(false) {
                d.push('x');
            }
            Some(d)
        } else {
            None
        };
        let len = match (scale, magic) {
            (Scale::Large, _) if w.chance(1, 2) => w.range(1, 20_000) as usize,
            // (1 huge run in 10 — thorough tier, where huge runs are six times as frequent: 1 in 30 —
            // has one sequence of 8 MiB and more)
            (Scale::Huge, _) if v.is_empty() && w.chance(1, if crate::world::thorough() { 30 } else { 10 }) && w.take_big(24 << 20) => {
                w.probe("sequence_of_8_mib_or_more");
                *w.pick(&[8usize << 20, (8 << 20) + 1, 10_000_000, (8 << 20) + 61])
            }
            (Scale::Huge, _) if w.chance(1, 8) && w.take_big(5 << 20) => *w.pick(&[1usize << 20, (1 << 20) + 1, (1 << 20) - 1, 1 << 21, (1 << 20) + 4097]),
            (Scale::Huge, _) if w.chance(1, 2) => w.range(1, 200_000) as usize,
            // many records, mostly small, now and then one long line among them
            (Scale::Many, _) if fixed_len.is_some() => fixed_len.unwrap(),
            (Scale::Many, _) => {
                if w.chance(1, 40) && w.take_big(150_000) {
                    *w.pick(&[1100usize, 2048, 5000, 70_000])
                } else {
                    w.small(1, 40) as usize
                }
            }
            (_, Some(m)) if w.chance(1, 2) => near_magic(w, m, 300_000),
            _ => w.small(1, 40) as usize,
        };
        let seq = if len > 64 { pattern_seq(w, len) } else { bytes_from(w, SEQ_CHARS, len as u64) };
        let qual = if kind == Kind::Fastq {
            let mut q: Vec<u8> = if len > 64 { pattern_qual(w, len) } else { (0..len).map(|_| 33 + w.draw(94) as u8).collect() };
            match w.draw(4) {
                1 => q[0] = b'@',
                2 => q[0] = b'+',
                3 if w.chance(1, 4) => {
                    // quality strings as instruments write them: one value throughout, the Phred+64
                    // range, a tail of 'B' or '#' (the "do not use" marks), the top of the range
                    w.probe("quality_string_in_an_instrument_pattern");
                    let n = q.len();
                    match w.draw(5) {
                        0 => q.iter_mut().for_each(|b| *b = b'#'),
                        1 => q.iter_mut().for_each(|b| *b = b'@' + (*b - 33) % 41),
                        2 => q[n - n / 2..].iter_mut().for_each(|b| *b = b'B'),
                        3 => q[n - n / 2..].iter_mut().for_each(|b| *b = b'#'),
                        _ => q.iter_mut().for_each(|b| *b = b'~'),
                    }
                }
                _ => {}
            }
            q
        } else {
            vec![]
        };
        let mut rec = Rec { id, desc, seq, qual };
        // relations between fields and between neighbouring records (1 record in 12)
        if w.chance(1, 12) {
            w.probe("related_fields_or_records");
            match (w.draw(10), v.last()) {
                (6, _) => {
                    // a homopolymer, and qualities of one value (run-length or dedup code paths)
                    let c = rec.seq[0];
                    rec.seq.iter_mut().for_each(|b| *b = c);
                    if let Some(&q) = rec.qual.first() {
                        rec.qual.iter_mut().for_each(|b| *b = q);
                    }
                }
                (7, Some(_)) => {
                    // the id of an earlier, not necessarily neighbouring, record with other content
                    rec.id = v[w.draw(v.len() as u64) as usize].id.clone();
                }
                (8, Some(prev)) => {
                    // the residues of the previous record under a new name
                    rec.seq = prev.seq.clone();
                    if kind == Kind::Fastq {
                        rec.qual = prev.qual.clone();
                    }
                }
                (9, _) => {
                    // a reverse palindrome / a sequence that reads the same backwards
                    let n = rec.seq.len();
                    for i in 0..n / 2 {
                        rec.seq[n - 1 - i] = rec.seq[i];
                    }
                }
                (0, Some(prev)) => rec = prev.clone(), // the same record twice in a row
                (1, Some(prev)) => rec.id = format!("{}{}", prev.id, rec.id), // previous id is a prefix
                (2, Some(prev)) => {
                    // previous id is an extension of this one
                    let n = prev.id.chars().count();
                    if n > 1 {
                        rec.id = prev.id.chars().take(n - 1).collect();
                    }
                }
                (3, _) => rec.desc = Some(rec.id.clone()),
                (4, _) if kind == Kind::Fastq => rec.qual = rec.seq.clone(), // residues are printable
                (5, Some(prev)) if kind == Kind::Fastq && !rec.qual.is_empty() => {
                    // qualities that look like the header of the previous record
                    let h = format!("@{}", prev.id);
                    let hb = h.as_bytes();
                    if hb.iter().all(|b| (33..=126).contains(b)) {
                        let n = rec.qual.len().min(hb.len());
                        rec.qual[..n].copy_from_slice(&hb[..n]);
                    }
                }
                _ => rec.desc = Some(rec.id.clone()),
            }
        }
        v.push(rec);
    }
    v
}

// ---------------------------------------------------------------------------------------------
// producer

#[derive(Clone, Copy, Debug)]
struct WriterCfg {
    ctor: u8,         // 0 new, 1 with_capacity, 2 from_bufwriter
    cap: usize,       // for ctor 1, 2
    wrap: Option<usize>,
    /// Some(x): set_linewrap(x) is called before every odd-numbered record and set_linewrap(wrap)
    /// before every even-numbered one (the wrap may legally change between records)
    wrap2: Option<Option<usize>>,
    api: u8,          // 0 write(), 1 write_record(), 2 Display
    flush: bool,
    /// explicit flush() after every record
    flush_each: bool,
    /// ctor 2 only: the BufWriter handed to from_bufwriter already holds record 0, written into it
    /// by the caller itself (unwrapped); the library writes the records after it
    preload: bool,
}

const WCAPS: [usize; 14] = [8192, 0, 1, 2, 7, 64, 3, 16, 100, 1000, 4096, 32768, 65536, 8193];

fn gen_writer_cfg(w: &World, kind: Kind, recs: &[Rec], magic: Option<usize>) -> WriterCfg {
    let ctor = w.draw(3) as u8;
    let cap = if ctor == 0 {
        8192
    } else {
        match magic {
            Some(m) if w.chance(1, 3) => m,
            _ => *w.pick(&WCAPS),
        }
    };
    let maxlen = recs.iter().map(|r| r.seq.len()).max().unwrap_or(1);
    // (a chromosome-sized sequence is wrapped at a customary width every other time)
    let wrap = if kind == Kind::Fasta && maxlen >= 8 << 20 && w.chance(1, 2) {
        Some(*w.pick(&[60usize, 70, 80, 61, 1 << 16]))
    } else if kind == Kind::Fasta && w.chance(1, 2) {
        Some(match (w.draw(4), magic) {
            // "any line wrap": widths near the top of the integer range must simply mean "no wrap"
            _ if w.chance(1, 40) => *w.pick(&[usize::MAX, usize::MAX - 1, 1usize << 63, (u32::MAX as usize) + 1, u32::MAX as usize, usize::MAX / 2 + 1]),
            (_, Some(m)) if w.chance(1, 2) => m,
            (0, _) => 1 + w.draw(maxlen.min(12) as u64) as usize,
            (1, _) => 60,
            (2, _) => 1 + w.draw(maxlen as u64 + 2) as usize,
            _ => 70,
        })
    } else {
        None
    };
    let wrap2 = if kind == Kind::Fasta && w.chance(1, 8) {
        Some(match w.draw(3) {
            0 => None,
            1 => Some(1 + w.draw(maxlen.min(12) as u64) as usize),
            _ => Some(60),
        })
    } else {
        None
    };
    // 3 = write() and write_record() alternate on one writer
    let api = w.draw(4) as u8;
    let flush = w.chance(1, 2);
    let flush_each = w.chance(1, 5);
    let preload = ctor == 2 && api != 2 && !recs.is_empty() && w.chance(1, 3);
    if preload {
        w.probe("bufwriter_handed_over_with_data_in_it");
    }
    WriterCfg {
        ctor,
        cap,
        wrap,
        wrap2,
        api,
        flush,
        flush_each,
        preload,
    }
}

/// Make the first record tile the writer's buffer: after its header and a whole number of
/// sequence lines the number of buffered bytes is exactly the capacity (or one off, or twice it),
/// with a partial last line to follow. Code that flushes, or switches path, "when the next line
/// no longer fits" meets its boundary on purpose rather than by luck.
fn tile_buffer(w: &World, kind: Kind, rec: &mut Rec, cfg: &mut WriterCfg) {
    let hdr = header_bytes(b'>', rec).len() + 1;
    let target = match w.draw(4) {
        0 => cfg.cap,
        1 => cfg.cap + 1,
        2 => cfg.cap - 1,
        _ => 2 * cfg.cap,
    };
    if target <= hdr + 2 {
        return;
    }
    let room = target - hdr;
    let len = if kind == Kind::Fasta && cfg.wrap.is_some() {
        // a line length (wrap + 1) that divides the room
        let mut d = room;
        for _ in 0..8 {
            let c = 2 + w.draw(room.min(120) as u64 - 1) as usize;
            if room % c == 0 {
                d = c;
                break;
            }
        }
        cfg.wrap = Some(d - 1);
        cfg.wrap2 = None;
        (room / d) * (d - 1) + w.draw(d as u64 - 1) as usize
    } else if kind == Kind::Fasta {
        room - 1
    } else {
        // "@hdr\nseq\n+\nqual\n"
        (room.saturating_sub(3) / 2).max(1)
    };
    let len = len.max(1);
    rec.seq = pattern_seq(w, len);
    if kind == Kind::Fastq {
        rec.qual = pattern_qual(w, len);
    }
    w.probe("first_record_tiles_writer_buffer");
}

impl WriterCfg {
    /// the line wrap in force for record number j (the Display path never wraps)
    fn wrap_for(&self, j: usize) -> Option<usize> {
        if self.api == 2 || self.preload && j == 0 {
            return None;
        }
        match self.wrap2 {
            Some(w2) if j % 2 == 1 => w2,
            _ => self.wrap,
        }
    }
}

fn produce<S: Write>(kind: Kind, cfg: &WriterCfg, recs: &[Rec], sink: S) -> io::Result<()> {
    match kind {
        Kind::Fasta => {
            if cfg.api == 2 {
                // Display impl of Record, pushed through a BufWriter the harness owns
                let mut bw = BufWriter::with_capacity(cfg.cap, sink);
                for r in recs {
                    let rec = fasta::Record::with_attrs(&r.id, r.desc.as_deref(), &r.seq);
                    bw.write_all(rec.to_string().as_bytes())?;
                }
                if cfg.flush {
                    bw.flush()?;
                }
                return Ok(());
            }
            let mut wr = match cfg.ctor {
                0 => fasta::Writer::new(sink),
                1 => fasta::Writer::with_capacity(cfg.cap, sink),
                _ => {
                    let mut bw = BufWriter::with_capacity(cfg.cap, sink);
                    if cfg.preload {
                        bw.write_all(&hand_written(kind, &recs[0]))?;
                    }
                    fasta::Writer::from_bufwriter(bw)
                }
            };
            wr.set_linewrap(cfg.wrap);
            for (j, r) in recs.iter().enumerate() {
                if cfg.preload && j == 0 {
                    continue;
                }
                if cfg.wrap2.is_some() {
                    wr.set_linewrap(cfg.wrap_for(j));
                }
                if cfg.api == 0 || cfg.api == 3 && j % 2 == 0 {
                    wr.write(&r.id, r.desc.as_deref(), &r.seq)?;
                } else {
                    let rec = fasta::Record::with_attrs(&r.id, r.desc.as_deref(), &r.seq);
                    // every other record goes through Clone first
                    let rec = if j % 2 == 1 { rec.clone() } else { rec };
                    wr.write_record(&rec)?;
                }
                if cfg.flush_each {
                    wr.flush()?;
                }
            }
            if cfg.flush {
                wr.flush()?;
            }
            Ok(())
        }
        Kind::Fastq => {
            if cfg.api == 2 {
                let mut bw = BufWriter::with_capacity(cfg.cap, sink);
                for r in recs {
                    let rec = fastq::Record::with_attrs(&r.id, r.desc.as_deref(), &r.seq, &r.qual);
                    bw.write_all(rec.to_string().as_bytes())?;
                }
                if cfg.flush {
                    bw.flush()?;
                }
                return Ok(());
            }
            let mut wr = match cfg.ctor {
                0 => fastq::Writer::new(sink),
                1 => fastq::Writer::with_capacity(cfg.cap, sink),
                _ => {
                    let mut bw = BufWriter::with_capacity(cfg.cap, sink);
                    if cfg.preload {
                        bw.write_all(&hand_written(kind, &recs[0]))?;
                    }
                    fastq::Writer::from_bufwriter(bw)
                }
            };
            for (j, r) in recs.iter().enumerate() {
                if cfg.preload && j == 0 {
                    continue;
                }
                if cfg.api == 0 || cfg.api == 3 && j % 2 == 0 {
                    wr.write(&r.id, r.desc.as_deref(), &r.seq, &r.qual)?;
                } else {
                    let rec = fastq::Record::with_attrs(&r.id, r.desc.as_deref(), &r.seq, &r.qual);
                    let rec = if j % 2 == 1 { rec.clone() } else { rec };
                    wr.write_record(&rec)?;
                }
                if cfg.flush_each {
                    wr.flush()?;
                }
            }
            if cfg.flush {
                wr.flush()?;
            }
            Ok(())
        }
    }
}

/// Record 0 as a caller would write it into its own BufWriter before handing that to the library.
fn hand_written(kind: Kind, r: &Rec) -> Vec<u8> {
    let mut b = header_bytes(if kind == Kind::Fasta { b'>' } else { b'@' }, r);
    b.push(b'\n');
    b.extend_from_slice(&r.seq);
    b.push(b'\n');
    if kind == Kind::Fastq {
        b.extend_from_slice(b"+\n");
        b.extend_from_slice(&r.qual);
        b.push(b'\n');
    }
    b
}

/// A plain sink that also remembers its length after each record (record boundaries).
pub struct PlainSink(pub Rc<RefCell<Vec<u8>>>);
impl Write for PlainSink {
    fn write(&mut self, buf: &[u8]) -> io::Result<usize> {
        self.0.borrow_mut().extend_from_slice(buf);
        Ok(buf.len())
    }
    fn flush(&mut self) -> io::Result<()> {
        Ok(())
    }
}

/// What the writer produces into a sink that accepts everything. `Err` only if the writer itself
/// refuses a valid record (the sink never fails).
fn reference_bytes(kind: Kind, cfg: &WriterCfg, recs: &[Rec]) -> Result<Vec<u8>, crate::runner::Violation> {
    let buf = Rc::new(RefCell::new(Vec::new()));
    if let Err(e) = produce(kind, cfg, recs, PlainSink(buf.clone())) {
        return fail(
            "C11.a-sink",
            format!("writer returned an error for a valid record list although its sink accepts every byte: {:?} ({})", e.kind(), e),
        );
    }
    let v = buf.borrow().clone();
    Ok(v)
}

/// Run the producer side. Returns the bytes that reached the simulated sink.
fn producer_phase(w: &W, kind: Kind, recs: &[Rec], wcfg: &WriterCfg, iocfg: IoCfg) -> Result<Vec<u8>, crate::runner::Violation> {
    let reference = reference_bytes(kind, wcfg, recs)?;
    w.set_budget(8 * reference.len() as u64 + 1000);
    let sink = SimWrite::new(w, iocfg, "sink");
    let bytes = sink.sink.clone();
    let res = produce(kind, wcfg, recs, sink);
    w.set_budget(u64::MAX);
    if wcfg.cap != 8192 && wcfg.ctor != 0 {
        w.fired("knob_writer_capacity");
        if recs.iter().any(|r| r.seq.len() > wcfg.cap) {
            w.probe("writer_buffer_smaller_than_field");
        }
    }
    if let Some(wd) = wcfg.wrap {
        w.fired("knob_linewrap");
        if wd >= 64 && recs.iter().any(|r| r.seq.len() >= wd) {
            w.probe("wrap_equals_magic_and_sequence_reaches_it");
        }
    }
    w.clause("C11.a-sink");
    if let Err(e) = res {
        // the sink never fails hard; EINTR must have been retried by write_all / BufWriter
        return fail(
            "C11.a-sink",
            format!("writer returned an error although the sink only ever short-writes or is interrupted: {:?} ({})", e.kind(), e),
        );
    }
    let got = bytes.borrow().clone();
    if got != reference {
        let at = got
            .iter()
            .zip(reference.iter())
            .position(|(a, b)| a != b)
            .unwrap_or(got.len().min(reference.len()));
        return fail(
            "C11.a-sink",
            format!(
                "bytes that reached the sink differ from what the same writer produces into a Vec: sink has {} bytes, expected {}; first difference at offset {}; sink={:?} expected={:?}",
                got.len(),
                reference.len(),
                at,
                show(&got),
                show(&reference)
            ),
        );
    }
    Ok(got)
}

// ---------------------------------------------------------------------------------------------
// storage: images, classes, boundaries

/// Per-byte class of a well-formed image: b'H' header, b'S' sequence, b'P' plus line, b'Q' quality,
/// b'T' line terminator.
struct Image {
    bytes: Vec<u8>,
    class: Vec<u8>,
    /// offsets just after each record
    boundaries: Vec<usize>,
}

fn push_line(img: &mut Image, content: &[u8], class: u8, crlf: bool) {
    img.bytes.extend_from_slice(content);
    img.class.extend(std::iter::repeat(class).take(content.len()));
    if crlf {
        img.bytes.push(b'\r');
        img.class.push(b'T');
    }
    img.bytes.push(b'\n');
    img.class.push(b'T');
}

fn header_bytes(prefix: u8, r: &Rec) -> Vec<u8> {
    let mut h = vec![prefix];
    h.extend_from_slice(r.id.as_bytes());
    if let Some(d) = &r.desc {
        h.push(b' ');
        h.extend_from_slice(d.as_bytes());
    }
    h
}

/// The harness's own serialiser: `splits[j]` gives the line lengths of record j's sequence.
fn layout(kind: Kind, recs: &[Rec], splits: &[Vec<usize>], crlf: bool) -> Image {
    let mut img = Image {
        bytes: vec![],
        class: vec![],
        boundaries: vec![],
    };
    for (r, sp) in recs.iter().zip(splits.iter()) {
        match kind {
            Kind::Fasta => {
                push_line(&mut img, &header_bytes(b'>', r), b'H', crlf);
                let mut p = 0;
                for l in sp {
                    push_line(&mut img, &r.seq[p..p + l], b'S', crlf);
                    p += l;
                }
            }
            Kind::Fastq => {
                push_line(&mut img, &header_bytes(b'@', r), b'H', crlf);
                let mut p = 0;
                for l in sp {
                    push_line(&mut img, &r.seq[p..p + l], b'S', crlf);
                    p += l;
                }
                push_line(&mut img, b"+", b'P', crlf);
                // qualities: same number of lines, independent split — derived deterministically
                // from the sequence split by rotating it, so that line lengths differ
                let mut q = sp.clone();
                q.rotate_left(1);
                let mut p = 0;
                for l in &q {
                    push_line(&mut img, &r.qual[p..p + l], b'Q', crlf);
                    p += l;
                }
            }
        }
        img.boundaries.push(img.bytes.len());
    }
    img
}

/// Splits that reproduce what the writer under test is specified to emit.
fn writer_splits(recs: &[Rec], wcfg: &WriterCfg) -> Vec<Vec<usize>> {
    recs.iter()
        .enumerate()
        .map(|(j, r)| match wcfg.wrap_for(j) {
            None => vec![r.seq.len()],
            Some(wd) => {
                let mut v = vec![];
                let mut left = r.seq.len();
                while left > 0 {
                    let l = left.min(wd);
                    v.push(l);
                    left -= l;
                }
                v
            }
        })
        .collect()
}

#[derive(Clone, Copy, Debug, PartialEq, Eq)]
enum Storage {
    Identity,
    Crlf,
    Relayout { crlf: bool },
}

/// Decide the stored image from what the producer wrote.
fn store(w: &W, kind: Kind, recs: &[Rec], wcfg: &WriterCfg, written: &[u8]) -> (Image, Storage) {
    let st = match w.draw(4) {
        0 => Storage::Identity,
        1 => Storage::Crlf,
        2 => Storage::Relayout { crlf: false },
        _ => Storage::Relayout { crlf: true },
    };
    let img = match st {
        Storage::Identity | Storage::Crlf => {
            // take the writer's bytes as they are; annotate them with the layout the writer is
            // specified to produce (only used for probes, cut placement and boundaries)
            let crlf = st == Storage::Crlf;
            let model = layout(kind, recs, &writer_splits(recs, wcfg), crlf);
            let bytes = if crlf {
                let mut b = Vec::with_capacity(written.len() + 16);
                for &x in written {
                    if x == b'\n' {
                        b.push(b'\r');
                    }
                    b.push(x);
                }
                b
            } else {
                written.to_vec()
            };
            if bytes == model.bytes {
                Image {
                    bytes,
                    class: model.class,
                    boundaries: model.boundaries,
                }
            } else {
                // writer emits a layout the model does not predict (legal: only parsed records
                // matter). Fall back to no annotations.
                let n = bytes.len();
                Image {
                    bytes,
                    class: vec![b'?'; n],
                    boundaries: vec![],
                }
            }
        }
        Storage::Relayout { crlf } => {
            let splits: Vec<Vec<usize>> = recs
                .iter()
                .map(|r| split_points(w, r.seq.len(), 5))
                .collect();
            if splits.iter().any(|s| s.len() > 1) {
                w.probe("relayout_multiline");
                if crlf {
                    w.probe("relayout_multiline_crlf");
                }
            }
            layout(kind, recs, &splits, crlf)
        }
    };
    match st {
        Storage::Identity => {}
        Storage::Crlf => w.fired("crlf"),
        Storage::Relayout { crlf } => {
            w.fired("relayout");
            if crlf {
                w.fired("crlf");
            }
        }
    }
    w.sig_mix(match st {
        Storage::Identity => 1,
        Storage::Crlf => 2,
        Storage::Relayout { crlf: false } => 3,
        Storage::Relayout { crlf: true } => 4,
    });
    (img, st)
}

// ---------------------------------------------------------------------------------------------
// consumer

#[derive(Default, Debug)]
pub struct Parsed {
    pub recs: Vec<Rec>,
    /// (item index, is EINTR, text)
    pub errs: Vec<(usize, bool, String)>,
    pub items: usize,
    /// Err((is ErrorKind::Interrupted, text))
    pub kind_reported: Option<Result<Kind, (bool, String)>>,
    /// FASTQ only: check() verdict per Ok record
    pub checks: Vec<bool>,
    pub ended: bool,
}

fn from_fa(r: &fasta::Record) -> Rec {
    Rec {
        id: r.id().to_string(),
        desc: r.desc().map(|s| s.to_string()),
        seq: r.seq().to_vec(),
        qual: vec![],
    }
}
fn from_fq(r: &fastq::Record) -> Rec {
    Rec {
        id: r.id().to_string(),
        desc: r.desc().map(|s| s.to_string()),
        seq: r.seq().to_vec(),
        qual: r.qual().to_vec(),
    }
}

fn is_eintr_io(e: &io::Error) -> bool {
    e.kind() == io::ErrorKind::Interrupted
}
fn is_eintr_fq(e: &fastq::Error) -> bool {
    match e {
        fastq::Error::ReadError(e) => is_eintr_io(e),
        fastq::Error::FileOpen { source, .. } => is_eintr_io(source),
        _ => false,
    }
}

/// How the consumer drives a reader: the iterator, a `read(&mut record)` loop reusing one Record,
/// or `k` records through `read()` and the rest through `records()` (the look-ahead state the
/// reader carries between records must survive the switch).
#[derive(Clone, Copy, Debug, PartialEq, Eq)]
pub enum Api {
    Iter,
    ReadLoop,
    Mixed(u8),
}

fn consume_fasta<B: BufRead>(w: &World, reader: fasta::Reader<B>, api: Api, max_items: usize, p: &mut Parsed) {
    let mut reader = reader;
    let k = match api {
        Api::Iter => 0,
        Api::ReadLoop => usize::MAX,
        Api::Mixed(k) => k as usize,
    };
    let mut rec = fasta::Record::new();
    let mut n = 0usize;
    while n < k {
        n += 1;
        p.items += 1;
        match reader.read(&mut rec) {
            Ok(()) if rec.is_empty() => {
                p.items -= 1;
                p.ended = true;
                // poking a finished reader again must be harmless
                for _ in 0..2 {
                    let _ = reader.read(&mut rec);
                }
                return;
            }
            Ok(()) => p.recs.push(from_fa(&rec)),
            Err(e) => {
                // a read() loop stops at the first error, as the module documentation does
                p.errs.push((p.items - 1, is_eintr_io(&e), e.to_string()));
                p.ended = true;
                for _ in 0..2 {
                    let _ = reader.read(&mut rec);
                }
                return;
            }
        }
        if p.items > max_items + w.eintr_total.get() as usize {
            return;
        }
    }
    let mut it = reader.records();
    loop {
        match it.next() {
            None => break,
            Some(item) => {
                p.items += 1;
                match item {
                    Ok(r) => p.recs.push(if p.items % 2 == 0 { from_fa(&r.clone()) } else { from_fa(&r) }),
                    Err(e) => p.errs.push((p.items - 1, is_eintr_io(&e), e.to_string())),
                }
                if p.items > max_items + w.eintr_total.get() as usize {
                    return;
                }
            }
        }
    }
    p.ended = true;
    for _ in 0..2 {
        let _ = it.next();
    }
}

fn consume_fastq<B: BufRead>(w: &World, reader: fastq::Reader<B>, api: Api, max_items: usize, p: &mut Parsed) {
    let mut reader = reader;
    let k = match api {
        Api::Iter => 0,
        Api::ReadLoop => usize::MAX,
        Api::Mixed(k) => k as usize,
    };
    let mut rec = fastq::Record::new();
    let mut n = 0usize;
    while n < k {
        n += 1;
        p.items += 1;
        match reader.read(&mut rec) {
            Ok(()) if rec.is_empty() => {
                p.items -= 1;
                p.ended = true;
                for _ in 0..2 {
                    let _ = reader.read(&mut rec);
                }
                return;
            }
            Ok(()) => {
                p.checks.push(rec.check().is_ok());
                p.recs.push(from_fq(&rec));
            }
            Err(e) => {
                p.errs.push((p.items - 1, is_eintr_fq(&e), e.to_string()));
                p.ended = true;
                for _ in 0..2 {
                    let _ = reader.read(&mut rec);
                }
                return;
            }
        }
        if p.items > max_items + w.eintr_total.get() as usize {
            return;
        }
    }
    let mut it = reader.records();
    loop {
        match it.next() {
            None => break,
            Some(item) => {
                p.items += 1;
                match item {
                    Ok(r) => {
                        p.checks.push(r.check().is_ok());
                        p.recs.push(from_fq(&r));
                    }
                    Err(e) => p.errs.push((p.items - 1, is_eintr_fq(&e), e.to_string())),
                }
                if p.items > max_items + w.eintr_total.get() as usize {
                    return;
                }
            }
        }
    }
    p.ended = true;
    for _ in 0..2 {
        let _ = it.next();
    }
}

fn consume_either<B: BufRead>(w: &World, mut it: fastx::EitherRecords<B>, ask_kind: bool, max_items: usize, p: &mut Parsed) {
    use fastx::Record as _;
    if ask_kind {
        p.kind_reported = Some(match it.kind() {
            Ok(fastx::Kind::FASTA) => Ok(Kind::Fasta),
            Ok(fastx::Kind::FASTQ) => Ok(Kind::Fastq),
            Err(e) => Err((is_eintr_io(&e), e.to_string())),
        });
    }
    let mut asked_again = false;
    while let Some(item) = it.next() {
        // kind() asked again in the middle of the iteration must not disturb it
        if ask_kind && !asked_again && p.items == 1 {
            asked_again = true;
            if let (Ok(k2), Some(Ok(k1))) = (it.kind(), &p.kind_reported) {
                let k2 = match k2 {
                    fastx::Kind::FASTA => Kind::Fasta,
                    fastx::Kind::FASTQ => Kind::Fastq,
                };
                if k2 != *k1 {
                    p.kind_reported = Some(Err((false, format!("kind() said {:?} first and {:?} after one record", k1, k2))));
                }
            }
        }
        p.items += 1;
        match item {
            Ok(r) => {
                let k = match r.kind() {
                    fastx::Kind::FASTA => Kind::Fasta,
                    fastx::Kind::FASTQ => Kind::Fastq,
                };
                if p.kind_reported.is_none() {
                    p.kind_reported = Some(Ok(k));
                }
                p.checks.push(r.check().is_ok());
                // the record is looked at through one of the views the module offers: the Record
                // trait on the enum, the enum's variants, or a conversion to one concrete type
                let rec = match w.draw(5) {
                    0 => Rec { id: r.id().to_string(), desc: r.desc().map(|s| s.to_string()), seq: r.seq().to_vec(), qual: r.qual().map(|q| q.to_vec()).unwrap_or_default() },
                    1 => match r {
                        fastx::EitherRecord::FASTA(f) => from_fa(&f),
                        fastx::EitherRecord::FASTQ(q) => from_fq(&q),
                    },
                    2 => {
                        // to a FASTA record: qualities are dropped by the conversion, taken from the trait before
                        let qual = r.qual().map(|q| q.to_vec()).unwrap_or_default();
                        let f = if w.chance(1, 2) { r.to_fasta() } else { r.into() };
                        Rec { qual, ..from_fa(&f) }
                    }
                    3 => {
                        // to a FASTQ record: a FASTA record gets the default quality for every base
                        let was_fasta = k == Kind::Fasta;
                        let q = r.to_fastq(b'I');
                        let mut rec = from_fq(&q);
                        if was_fasta && rec.qual == vec![b'I'; rec.seq.len()] {
                            rec.qual.clear();
                        }
                        rec
                    }
                    _ => {
                        // through the concrete types' own Record impls
                        match &r {
                            fastx::EitherRecord::FASTA(f) => Rec { id: fastx::Record::id(f).to_string(), desc: fastx::Record::desc(f).map(|s| s.to_string()), seq: fastx::Record::seq(f).to_vec(), qual: fastx::Record::qual(f).map(|q| q.to_vec()).unwrap_or_default() },
                            fastx::EitherRecord::FASTQ(q) => Rec { id: fastx::Record::id(q).to_string(), desc: fastx::Record::desc(q).map(|s| s.to_string()), seq: fastx::Record::seq(q).to_vec(), qual: fastx::Record::qual(q).map(|x| x.to_vec()).unwrap_or_default() },
                        }
                    }
                };
                p.recs.push(rec);
            }
            Err(e) => {
                let eintr = match &e {
                    fastx::Error::IO(e) => is_eintr_io(e),
                    fastx::Error::FASTQ(e) => is_eintr_fq(e),
                };
                p.errs.push((p.items - 1, eintr, format!("{:?}", e)));
            }
        }
        if p.items > max_items + w.eintr_total.get() as usize {
            return;
        }
    }
    p.ended = true;
    for _ in 0..2 {
        let _ = it.next();
    }
}

const RCAPS: [usize; 16] = [8192, 1, 2, 3, 5, 16, 64, 512, 7, 100, 1000, 4096, 8191, 8193, 32768, 65536];

#[derive(Clone, Copy, Debug)]
struct ReaderCfg {
    /// 0 Reader::new, 1 with_capacity, 2 from_bufread(SimBufRead), 3 from_bufread(BufReader(cap, SimRead)),
    /// 4 EitherRecords(SimBufRead), 5 EitherRecords(BufReader(cap, SimRead)),
    /// 6 get_kind(SimRead) then Reader::with_capacity, 7 get_kind_seek(SimSeekRead) then Reader::with_capacity
    ctor: u8,
    cap: usize,
    api: Api,
    ask_kind: bool,
    io: IoCfg,
    /// get_kind_seek variant: never put a junk prefix in front of the stream (partition sweeps)
    no_prefix: bool,
}

fn gen_reader_cfg(w: &World, allow_sniff: bool, allow_eintr: bool, magic: Option<usize>) -> ReaderCfg {
    let ctor = w.draw(if allow_sniff { 8 } else { 4 }) as u8;
    let cap = if ctor == 0 {
        8192
    } else {
        match magic {
            Some(m) if w.chance(1, 3) => m,
            _ => *w.pick(&RCAPS),
        }
    };
    let api = match w.draw(6) {
        0..=2 => Api::Iter,
        3..=4 => Api::ReadLoop,
        _ => Api::Mixed(1 + w.draw(3) as u8),
    };
    let ask_kind = w.chance(1, 2);
    let mut io = IoCfg::draw(w, allow_eintr);
    if let Some(m) = magic {
        if w.chance(1, 4) {
            io.chunk = crate::world::Chunk::Fixed(m);
        }
    }
    ReaderCfg {
        ctor,
        cap,
        api,
        ask_kind,
        io,
        no_prefix: false,
    }
}

impl ReaderCfg {
    fn json(&self) -> serde_json::Value {
        let names = [
            "Reader::new(SimRead)",
            "Reader::with_capacity(cap, SimRead)",
            "Reader::from_bufread(SimBufRead)",
            "Reader::from_bufread(BufReader::with_capacity(cap, SimRead))",
            "EitherRecords::new(SimBufRead)",
            "EitherRecords::new(BufReader::with_capacity(cap, SimRead))",
            "get_kind(SimRead) → Reader::with_capacity(cap, chain)",
            "get_kind_seek(SimSeekRead) → Reader::with_capacity(cap, file)",
        ];
        json!({"ctor": names[self.ctor as usize], "cap": self.cap,
               "api": format!("{:?}", self.api),
               "ask_kind_first": self.ask_kind, "io": self.io.json()})
    }
}

/// Run one consumer over `data`, parsing as `kind` (ignored by the sniffing constructors).
fn consumer_phase(w: &W, kind: Kind, data: &Rc<Vec<u8>>, rc: &ReaderCfg) -> (Parsed, Vec<usize>) {
    let len = data.len();
    let max_items = len + 2;
    w.set_budget(8 * len as u64 + 1000);
    let mut p = Parsed::default();
    if rc.cap != 8192 {
        w.fired("knob_reader_capacity");
    }
    let cuts;
    match rc.ctor {
        0 | 1 | 3 => {
            let src = SimRead::new(w, data.clone(), rc.io, "src");
            cuts = src.cuts.clone();
            match (kind, rc.ctor) {
                (Kind::Fasta, 0) => consume_fasta(w, fasta::Reader::new(src), rc.api, max_items, &mut p),
                (Kind::Fasta, 1) => consume_fasta(w, fasta::Reader::with_capacity(rc.cap, src), rc.api, max_items, &mut p),
                (Kind::Fasta, _) => consume_fasta(w, 
                    fasta::Reader::from_bufread(BufReader::with_capacity(rc.cap, src)),
                    rc.api,
                    max_items,
                    &mut p,
                ),
                (Kind::Fastq, 0) => consume_fastq(w, fastq::Reader::new(src), rc.api, max_items, &mut p),
                (Kind::Fastq, 1) => consume_fastq(w, fastq::Reader::with_capacity(rc.cap, src), rc.api, max_items, &mut p),
                (Kind::Fastq, _) => consume_fastq(w, 
                    fastq::Reader::from_bufread(BufReader::with_capacity(rc.cap, src)),
                    rc.api,
                    max_items,
                    &mut p,
                ),
            }
        }
        2 => {
            let src = SimBufRead::new(w, data.clone(), rc.io, "src");
            cuts = src.cuts.clone();
            match kind {
                Kind::Fasta => consume_fasta(w, fasta::Reader::from_bufread(src), rc.api, max_items, &mut p),
                Kind::Fastq => consume_fastq(w, fastq::Reader::from_bufread(src), rc.api, max_items, &mut p),
            }
        }
        4 => {
            let src = SimBufRead::new(w, data.clone(), rc.io, "src");
            cuts = src.cuts.clone();
            w.probe("sniffer_used");
            consume_either(w, fastx::EitherRecords::new(src), rc.ask_kind, max_items, &mut p);
        }
        5 => {
            let src = SimRead::new(w, data.clone(), rc.io, "src");
            cuts = src.cuts.clone();
            w.probe("sniffer_used");
            consume_either(w, 
                fastx::EitherRecords::new(BufReader::with_capacity(rc.cap, src)),
                rc.ask_kind,
                max_items,
                &mut p,
            );
        }
        6 => {
            let src = SimRead::new(w, data.clone(), rc.io, "src");
            cuts = src.cuts.clone();
            w.probe("sniffer_used");
            match fastx::get_kind(src) {
                Ok((chain, k)) => {
                    let k = match k {
                        fastx::Kind::FASTA => Kind::Fasta,
                        fastx::Kind::FASTQ => Kind::Fastq,
                    };
                    p.kind_reported = Some(Ok(k));
                    match k {
                        Kind::Fasta => consume_fasta(w, fasta::Reader::with_capacity(rc.cap, chain), rc.api, max_items, &mut p),
                        Kind::Fastq => consume_fastq(w, fastq::Reader::with_capacity(rc.cap, chain), rc.api, max_items, &mut p),
                    }
                }
                Err(e) => {
                    p.kind_reported = Some(Err((is_eintr_io(&e), e.to_string())));
                    p.errs.push((0, is_eintr_io(&e), e.to_string()));
                    p.ended = true;
                }
            }
        }
        _ => {
            // the stream may be positioned behind some unrelated prefix: get_kind_seek must look at
            // the current position and leave the stream there
            let prefix_len = if !rc.no_prefix && w.chance(1, 3) { 1 + w.draw(5) as usize } else { 0 };
            let mut src = if prefix_len > 0 {
                let mut d: Vec<u8> = (0..prefix_len).map(|_| *w.pick(b"#x>@\n ")).collect();
                d.extend_from_slice(data);
                let mut s = SimSeekRead::new(w, Rc::new(d), rc.io, "src");
                use std::io::Seek;
                s.seek(io::SeekFrom::Start(prefix_len as u64)).expect("sim: plain seek");
                w.probe("sniff_seek_stream_not_at_zero");
                cuts = Rc::new(RefCell::new(Vec::new()));
                s
            } else {
                let s = SimSeekRead::new(w, data.clone(), rc.io, "src");
                cuts = s.cuts.clone();
                s
            };
            w.probe("sniffer_used");
            match fastx::get_kind_seek(&mut src) {
                Ok(k) => {
                    let k = match k {
                        fastx::Kind::FASTA => Kind::Fasta,
                        fastx::Kind::FASTQ => Kind::Fastq,
                    };
                    p.kind_reported = Some(Ok(k));
                    match k {
                        Kind::Fasta => consume_fasta(w, fasta::Reader::with_capacity(rc.cap, src), rc.api, max_items, &mut p),
                        Kind::Fastq => consume_fastq(w, fastq::Reader::with_capacity(rc.cap, src), rc.api, max_items, &mut p),
                    }
                }
                Err(e) => {
                    p.kind_reported = Some(Err((is_eintr_io(&e), e.to_string())));
                    p.errs.push((0, is_eintr_io(&e), e.to_string()));
                    p.ended = true;
                }
            }
        }
    }
    w.set_budget(u64::MAX);
    let c = cuts.borrow().clone();
    (p, c)
}

// ---------------------------------------------------------------------------------------------
// probes from the read schedule

fn schedule_probes(w: &World, img: &Image, cuts: &[usize]) {
    for &c in cuts {
        if c == 0 || c >= img.bytes.len() {
            continue;
        }
        if img.class.len() == img.bytes.len() && img.class[c - 1] == b'H' && img.class[c] == b'H' {
            w.probe("header_split_across_reads");
        }
        if img.bytes[c - 1] == b'\r' && img.bytes[c] == b'\n' {
            w.probe("cr_lf_in_different_reads");
        }
        if img.bytes[c] & 0xC0 == 0x80 {
            w.probe("utf8_char_split_across_reads");
        }
        if c == 1 {
            w.probe("first_byte_delivered_alone");
        }
    }
}

fn note_common(w: &World, rc: &ReaderCfg, img: &[u8]) {
    if !w.keep_trace {
        return;
    }
    w.note("reader", rc.json());
    w.note("stored_image", json!(show(img)));
}

fn first_diff(a: &[Rec], b: &[Rec]) -> String {
    for (i, (x, y)) in a.iter().zip(b.iter()).enumerate() {
        if x != y {
            return format!("record {}: read {} but wrote {}", i, x.json(), y.json());
        }
    }
    format!("read {} records, wrote {}", a.len(), b.len())
}

/// The round-trip oracle (strict, or relaxed for EINTR exactly as DESIGN §4.1 states).
fn check_roundtrip(w: &World, clause: &'static str, p: &Parsed, expected: &[Rec], eintr_on: bool) -> Verdict {
    w.clause(clause);
    // every error item of kind Interrupted needs an injected EINTR of its own (see the EINTR relaxation)
    if p.items > expected.len() + 2 + w.eintr_total.get() as usize && !p.ended {
        return fail(
            "C11.d-livelock",
            format!("iterator yielded {} items for a file of {} records without ending", p.items, expected.len()),
        );
    }
    if !p.errs.is_empty() {
        let first = &p.errs[0];
        if eintr_on && first.1 && w.eintr_total.get() > 0 {
            // Legal: the reader surfaced Interrupted. Only what was yielded *before* that first
            // error is judged (a consumer that keeps pulling after an error is on its own): it must
            // be a correct prefix. Descriptions are compared modulo known finding K1.
            let n = first.0.min(p.recs.len());
            let before = &p.recs[..n];
            if n <= expected.len() && (before == &expected[..n] || only_description_whitespace_differs(before, &expected[..n]).is_some()) {
                return Ok(());
            }
            return fail(clause, format!("after a surfaced EINTR the records read before it are not a prefix of those written: {}", first_diff(before, expected)));
        }
        return fail(
            clause,
            format!(
                "reader reported an error on a well-formed file: item {} = {:?}; {} records had been read",
                first.0,
                first.2,
                p.recs.len()
            ),
        );
    }
    if p.recs != expected {
        if let Some(msg) = only_description_whitespace_differs(&p.recs, expected) {
            w.clause(K1_CLAUSE);
            return fail(K1_CLAUSE, msg);
        }
        return fail(clause, first_diff(&p.recs, expected));
    }
    Ok(())
}

/// Clause of known finding K1 (see known_findings.json): its own clause id, so that it never
/// occupies the slot of a regular clause.
const K1_CLAUSE: &str = "C11.k1-description-whitespace";

/// Some(message) iff the two lists differ, and differ only in descriptions where the one read
/// back is the written one with trailing white space removed (an empty result reads as None).
fn only_description_whitespace_differs(read: &[Rec], wrote: &[Rec]) -> Option<String> {
    if read.len() != wrote.len() {
        return None;
    }
    let mut example = None;
    for (r, x) in read.iter().zip(wrote.iter()) {
        if r.id != x.id || r.seq != x.seq || r.qual != x.qual {
            return None;
        }
        if r.desc != x.desc {
            let trimmed = x.desc.as_ref().map(|d| d.trim_end().to_string()).filter(|d| !d.is_empty());
            if r.desc != trimmed {
                return None;
            }
            if example.is_none() {
                example = Some(format!(
                    "trailing white space or empty description not preserved: wrote description {:?}, read back {:?} (record id {:?}); everything else is identical",
                    x.desc, r.desc, x.id
                ));
            }
        }
    }
    example
}

fn roundtrip(w: &W, kind: Kind, with_cut: bool) -> Verdict {
    let scale = gen_scale(w);
    match scale {
        Scale::Small => {}
        Scale::Large => w.probe("large_regime"),
        Scale::Many => w.probe("many_records_regime"),
        Scale::Huge => w.probe("huge_regime"),
    }
    // a per-run magic size that wrap, capacities, chunk size and lengths may share
    let magic = if w.chance(1, 4) { Some(magic_size(w, 17)) } else { None };
    if let Some(m) = magic {
        w.probe("magic_size_run");
        if w.keep_trace {
            w.note("magic_size", json!(m));
        }
    }
    let mut recs = gen_records(w, kind, scale, magic, !with_cut);
    let mut wcfg = gen_writer_cfg(w, kind, &recs, magic);
    if !recs.is_empty() && wcfg.cap >= 8 && wcfg.cap <= 70_000 && w.chance(1, 12) {
        tile_buffer(w, kind, &mut recs[0], &mut wcfg);
    }
    if !recs.is_empty() {
        w.probe("workload_nonempty");
    }
    if recs.iter().any(|r| r.qual.first() == Some(&b'@')) {
        w.probe("quality_starts_with_at");
    }
    if recs.iter().any(|r| r.qual.first() == Some(&b'+')) {
        w.probe("quality_starts_with_plus");
    }
    if w.keep_trace {
        w.note("format", json!(format!("{:?}", kind)));
        w.note("workload", json!(recs.iter().map(|r| r.json()).collect::<Vec<_>>()));
    }
    if w.keep_trace {
        w.note(
            "writer",
            json!({"ctor": (["new","with_capacity","from_bufwriter"][wcfg.ctor as usize]), "cap": wcfg.cap, "linewrap": wcfg.wrap, "linewrap_for_odd_records": format!("{:?}", wcfg.wrap2),
                   "api": (["write","write_record","Display","write / write_record alternating"][wcfg.api as usize]), "explicit_flush": wcfg.flush, "flush_after_each_record": wcfg.flush_each}),
        );
    }
    // swarm: which fault kinds are enabled this run
    let faults_on = w.chance(3, 4);
    let eintr_on = faults_on && w.chance(1, 3);
    let wio = if faults_on {
        IoCfg::draw(w, eintr_on)
    } else {
        IoCfg::CLEAN
    };
    let written = producer_phase(w, kind, &recs, &wcfg, wio)?;
    let (mut img, st) = store(w, kind, &recs, &wcfg, &written);
    let mut rc = gen_reader_cfg(w, true, eintr_on, magic);
    if !faults_on {
        rc.io = IoCfg::CLEAN;
    }
    let sniffing = rc.ctor >= 4;

    let mut cut_at: Option<usize> = None;
    if with_cut {
        let len = img.bytes.len();
        let c = match w.draw(3) {
            0 => w.draw(len as u64 + 1) as usize,
            1 => {
                // near a line end
                let ends: Vec<usize> = (0..len).filter(|&i| img.bytes[i] == b'\n').map(|i| i + 1).collect();
                if ends.is_empty() {
                    0
                } else {
                    let e = *w.pick(&ends) as i64;
                    (e + w.draw(5) as i64 - 2).clamp(0, len as i64) as usize
                }
            }
            _ => {
                if img.boundaries.is_empty() {
                    len
                } else {
                    let e = *w.pick(&img.boundaries) as i64;
                    // right at / next to the boundary, or short of it by a multiple of 256 or 65 536
                    // (length comparisons done in a narrower integer type)
                    let d = [0i64, -1, -2, 1, 2, -256, -257, -65_536, -65_537, -131_072, -512][w.draw(11) as usize];
                    (e + d).clamp(0, len as i64) as usize
                }
            }
        };
        w.fired("cut");
        w.sig_mix(0x100 + if len == 0 { 0 } else { (c * 16 / (len + 1)) as u64 });
        if c < len && img.class.len() == len {
            match img.class[c] {
                b'H' => w.probe("cut_inside_header"),
                b'S' => w.probe("cut_inside_sequence"),
                b'P' => w.probe("cut_inside_plus_line"),
                b'Q' => w.probe("cut_inside_quality"),
                b'T' => w.probe("cut_inside_terminator"),
                _ => {}
            }
        }
        if c == 0 || img.boundaries.contains(&c) {
            w.probe("cut_at_record_boundary");
        }
        img.bytes.truncate(c);
        img.class.truncate(c);
        cut_at = Some(c);
    }

    let data = Rc::new(img.bytes.clone());
    note_common(w, &rc, &data);
    if w.keep_trace {
        w.note("storage", json!(format!("{:?}", st)));
        w.note("writer_io", wio.json());
        w.note("cut_at", json!(cut_at));
    }
    let (p, cuts) = consumer_phase(w, kind, &data, &rc);
    schedule_probes(w, &img, &cuts);
    if w.keep_trace {
        w.note("parsed", json!({"records": p.recs.iter().map(|r| r.json()).collect::<Vec<_>>(), "errors": p.errs.iter().map(|e| json!([e.0, e.2])).collect::<Vec<_>>(), "kind_reported": format!("{:?}", p.kind_reported)}));
    }

    if !p.ended {
        w.clause("C11.d-livelock");
        return fail(
            "C11.d-livelock",
            format!("iterator yielded {} items for a {}-byte stream without ending", p.items, data.len()),
        );
    }

    // "read back" also means through any method of the Records iterators, not only next():
    // 1 clean round trip in 8 gets a second pass that drives a fresh iterator through count(),
    // last(), nth() or skip() and compares with the same method applied to the written list.
    if cut_at.is_none() && !eintr_on && !recs.is_empty() && w.chance(1, 8) {
        iterator_methods_pass(w, kind, &data, &recs)?;
    }

    match cut_at {
        None => {
            let clause = match st {
                Storage::Identity => "C11.a-roundtrip",
                _ => "C11.b-layout",
            };
            if sniffing {
                w.clause("C11.c-sniff");
                if recs.is_empty() {
                    if !p.recs.is_empty() {
                        return fail("C11.c-sniff", format!("empty file, but the sniffing reader yielded {} record(s)", p.recs.len()));
                    }
                    return Ok(());
                }
                match &p.kind_reported {
                    // not asked and no Ok item: nothing was reported; the record comparison decides
                    None => {}
                    Some(Ok(k)) if *k == kind => {}
                    Some(Err((true, _))) if eintr_on && w.eintr_total.get() > 0 => return Ok(()),
                    other => {
                        return fail("C11.c-sniff", format!("wrote {:?}, sniffer reported {:?}", kind, other));
                    }
                }
                check_roundtrip(w, "C11.c-sniff", &p, &recs, eintr_on)
            } else {
                check_roundtrip(w, clause, &p, &recs, eintr_on)
            }
        }
        Some(c) => judge_cut(w, kind, &recs, &img.boundaries, c, &p, sniffing, eintr_on),
    }
}

fn iterator_methods_pass(w: &W, kind: Kind, data: &Rc<Vec<u8>>, recs: &[Rec]) -> Verdict {
    // K1 descriptions are compared modulo their known loss
    let same = |a: &[Rec], b: &[Rec]| a == b || only_description_whitespace_differs(a, b).is_some();
    w.probe("records_iterator_driven_through_methods");
    w.clause("C11.a-roundtrip");
    let io = IoCfg::draw(w, false);
    w.set_budget(8 * data.len() as u64 + 1000);
    let style = w.draw(4);
    let k = w.draw(recs.len() as u64 + 1) as usize;
    let sniff = w.chance(1, 3);
    let src = SimRead::new(w, data.clone(), io, "src");
    // returns (method description, what the iterator gave, what the written list gives)
    let (how, got, want): (String, Vec<Rec>, Vec<Rec>) = if sniff {
        use fastx::Record as _;
        let to_rec = |r: &fastx::EitherRecord| Rec { id: r.id().to_string(), desc: r.desc().map(|s| s.to_string()), seq: r.seq().to_vec(), qual: r.qual().map(|q| q.to_vec()).unwrap_or_default() };
        let mut it = fastx::EitherRecords::new(BufReader::new(src));
        match style {
            0 => ("EitherRecords.count()".into(), vec![Rec { id: it.count().to_string(), desc: None, seq: vec![], qual: vec![] }], vec![Rec { id: recs.len().to_string(), desc: None, seq: vec![], qual: vec![] }]),
            1 => ("EitherRecords.last()".into(), it.last().and_then(|x| x.ok()).iter().map(to_rec).collect(), recs.last().cloned().into_iter().collect()),
            2 => (format!("EitherRecords.nth({})", k), it.nth(k).and_then(|x| x.ok()).iter().map(to_rec).collect(), recs.get(k).cloned().into_iter().collect()),
            _ => (format!("EitherRecords.skip({}).next()", k), it.by_ref().skip(k).next().and_then(|x| x.ok()).iter().map(to_rec).collect(), recs.get(k).cloned().into_iter().collect()),
        }
    } else {
        match kind {
            Kind::Fasta => {
                let mut it = fasta::Reader::new(src).records();
                match style {
                    0 => ("fasta::Records.count()".into(), vec![Rec { id: it.count().to_string(), desc: None, seq: vec![], qual: vec![] }], vec![Rec { id: recs.len().to_string(), desc: None, seq: vec![], qual: vec![] }]),
                    1 => ("fasta::Records.last()".into(), it.last().and_then(|x| x.ok()).iter().map(from_fa).collect(), recs.last().cloned().into_iter().collect()),
                    2 => (format!("fasta::Records.nth({})", k), it.nth(k).and_then(|x| x.ok()).iter().map(from_fa).collect(), recs.get(k).cloned().into_iter().collect()),
                    _ => (format!("fasta::Records.skip({}).next()", k), it.by_ref().skip(k).next().and_then(|x| x.ok()).iter().map(from_fa).collect(), recs.get(k).cloned().into_iter().collect()),
                }
            }
            Kind::Fastq => {
                let mut it = fastq::Reader::new(src).records();
                match style {
                    0 => ("fastq::Records.count()".into(), vec![Rec { id: it.count().to_string(), desc: None, seq: vec![], qual: vec![] }], vec![Rec { id: recs.len().to_string(), desc: None, seq: vec![], qual: vec![] }]),
                    1 => ("fastq::Records.last()".into(), it.last().and_then(|x| x.ok()).iter().map(from_fq).collect(), recs.last().cloned().into_iter().collect()),
                    2 => (format!("fastq::Records.nth({})", k), it.nth(k).and_then(|x| x.ok()).iter().map(from_fq).collect(), recs.get(k).cloned().into_iter().collect()),
                    _ => (format!("fastq::Records.skip({}).next()", k), it.by_ref().skip(k).next().and_then(|x| x.ok()).iter().map(from_fq).collect(), recs.get(k).cloned().into_iter().collect()),
                }
            }
        }
    };
    w.set_budget(u64::MAX);
    if !same(&got, &want) {
        return fail(
            "C11.a-roundtrip",
            format!("{} on a well-formed file of {} records gave {:?}, the written list gives {:?}", how, recs.len(), got.iter().map(|r| r.json()).collect::<Vec<_>>(), want.iter().map(|r| r.json()).collect::<Vec<_>>()),
        );
    }
    Ok(())
}

/// Oracle for a stream cut at byte `c` (boundaries = offsets just after each record in the image).
#[allow(clippy::too_many_arguments)]
fn judge_cut(w: &World, kind: Kind, recs: &[Rec], boundaries: &[usize], c: usize, p: &Parsed, sniffing: bool, eintr_on: bool) -> Verdict {
    w.clause("C11.d-nopanic");
    // a cut exactly at a record boundary is a shorter well-formed file
    let at_boundary = c == 0 || boundaries.contains(&c);
    if at_boundary {
        let j = if c == 0 { 0 } else { boundaries.iter().position(|b| *b == c).unwrap() + 1 };
        if sniffing {
            if j == 0 {
                if !p.recs.is_empty() {
                    return fail("C11.a-prefix", format!("empty file, but {} record(s) were read", p.recs.len()));
                }
                return Ok(());
            }
            match &p.kind_reported {
                None => {}
                Some(Ok(k)) if *k == kind => {}
                Some(Err((true, _))) if eintr_on && w.eintr_total.get() > 0 => return Ok(()),
                other => return fail("C11.c-sniff", format!("wrote {:?}, sniffer reported {:?}", kind, other)),
            }
        }
        return check_roundtrip(w, "C11.a-prefix", p, &recs[..j], eintr_on);
    }
    if kind == Kind::Fastq {
        // every Ok record that passes check() is one of the originals, in original order
        w.clause("C11.e-cut-check");
        let parsed_kind_ok = !sniffing || matches!(p.kind_reported, Some(Ok(Kind::Fastq)));
        if parsed_kind_ok {
            let mut k = 0usize;
            for (i, r) in p.recs.iter().enumerate() {
                if !p.checks.get(i).copied().unwrap_or(false) {
                    continue;
                }
                let mut found = false;
                while k < recs.len() {
                    k += 1;
                    if recs[k - 1] == *r {
                        found = true;
                        break;
                    }
                }
                if !found {
                    return fail(
                        "C11.e-cut-check",
                        format!(
                            "stream cut at byte {}: record #{} {} passes check() but is not one of the written records in order",
                            c,
                            i,
                            r.json()
                        ),
                    );
                }
            }
        }
    }
    Ok(())
}

/// Every cut offset of one small file, each with a freshly drawn reader and read schedule.
fn cut_sweep(w: &W, kind: Kind) -> Verdict {
    let mut recs = gen_records(w, kind, Scale::Small, None, false);
    if !crate::world::thorough() {
        recs.truncate(3);
        for r in recs.iter_mut() {
            r.seq.truncate(12);
            r.qual.truncate(12);
        }
    }
    if recs.is_empty() {
        return Ok(());
    }
    w.probe("workload_nonempty");
    w.probe("cut_sweep");
    let crlf = w.chance(1, 2);
    let splits: Vec<Vec<usize>> = recs.iter().map(|r| split_points(w, r.seq.len(), 3)).collect();
    let img = layout(kind, &recs, &splits, crlf);
    let faults_on = w.chance(3, 4);
    w.fired("cut");
    if crlf {
        w.fired("crlf");
    }
    if w.keep_trace {
        w.note("format", json!(format!("{:?}", kind)));
        w.note("workload", json!(recs.iter().map(|r| r.json()).collect::<Vec<_>>()));
        w.note("full_image", json!(show(&img.bytes)));
        w.note("sweep", json!(format!("every cut offset 0..={}", img.bytes.len())));
    }
    for c in 0..=img.bytes.len() {
        let mut rc = gen_reader_cfg(w, true, false, None);
        if !faults_on {
            rc.io = IoCfg::CLEAN;
        }
        let data = Rc::new(img.bytes[..c].to_vec());
        let (p, _) = consumer_phase(w, kind, &data, &rc);
        if !p.ended {
            return fail("C11.d-livelock", format!("cut at {}: iterator yielded {} items for a {}-byte stream without ending", c, p.items, data.len()));
        }
        if let Err(mut v) = judge_cut(w, kind, &recs, &img.boundaries, c, &p, rc.ctor >= 4, false) {
            v.message = format!("cut at {} of {} with reader {}: {}", c, img.bytes.len(), rc.json(), v.message);
            return Err(v);
        }
    }
    Ok(())
}

/// Every partition of one tiny file into read() chunks (2^(len-1) of them), and every partition
/// of the writer's output into accepted write() chunks: the quantifier "forall partitions of the
/// byte stream" decided exhaustively for files of up to 13 (thorough: 14) bytes.
fn partitions(w: &W) -> Verdict {
    let kind = if w.chance(1, 2) { Kind::Fastq } else { Kind::Fasta };
    let limit = if crate::world::thorough() { 14 } else { 13 };
    let crlf = w.chance(1, 2);
    let mut recs: Vec<Rec> = vec![];
    for _ in 0..2 {
        let n = 1 + w.draw(2) as usize;
        let seq = bytes_from(w, SEQ_CHARS, n as u64);
        let qual: Vec<u8> = if kind == Kind::Fastq {
            (0..n).map(|i| if i == 0 { *w.pick(b"I@+!~") } else { 33 + w.draw(94) as u8 }).collect()
        } else {
            vec![]
        };
        recs.push(Rec {
            id: w.pick(&['a', '>', '@', '+', 'é']).to_string(),
            desc: if w.chance(1, 3) { Some(w.pick(&['d', '>', '+']).to_string()) } else { None },
            seq,
            qual,
        });
    }
    let mut splits: Vec<Vec<usize>> = recs.iter().map(|r| split_points(w, r.seq.len(), 2)).collect();
    let mut img = layout(kind, &recs, &splits, crlf);
    while img.bytes.len() > limit && !recs.is_empty() {
        recs.pop();
        splits.pop();
        img = layout(kind, &recs, &splits, crlf);
    }
    if recs.is_empty() {
        return Ok(());
    }
    w.probe("workload_nonempty");
    w.probe("all_partitions_sweep");
    w.fired("all_read_partitions");
    if crlf {
        w.fired("crlf");
    }
    let mut rc = gen_reader_cfg(w, true, false, None);
    rc.no_prefix = true;
    if rc.cap < 64 && rc.ctor != 2 && rc.ctor != 4 {
        // a BufReader smaller than the file would hide most partitions behind its own refills;
        // the small capacities have their own scenarios
        rc.cap = 8192;
    }
    let data = Rc::new(img.bytes.clone());
    let n = data.len();
    if w.keep_trace {
        w.note("format", json!(format!("{:?}", kind)));
        w.note("workload", json!(recs.iter().map(|r| r.json()).collect::<Vec<_>>()));
        w.note("stored_image", json!(show(&data)));
        w.note("reader", rc.json());
        w.note("sweep", json!(format!("all {} partitions of {} bytes into read() chunks, then all partitions of the writer output into write() chunks", 1u64 << (n - 1), n)));
    }
    for mask in 0..(1u64 << (n - 1)) {
        rc.io = IoCfg {
            chunk: crate::world::Chunk::Mask(mask),
            eintr_pm: 0,
            eio_pm: 0,
        };
        let (p, _) = consumer_phase(w, kind, &data, &rc);
        if !p.ended {
            return fail("C11.d-livelock", format!("partition mask {:#x}: iterator does not end", mask));
        }
        if rc.ctor >= 4 {
            match &p.kind_reported {
                None => {}
                Some(Ok(k)) if *k == kind => {}
                other => return fail("C11.c-sniff", format!("partition mask {:#x}: wrote {:?}, sniffer reported {:?}", mask, kind, other)),
            }
        }
        if let Err(mut v) = check_roundtrip(w, "C11.b-layout", &p, &recs, false) {
            v.message = format!("read partition mask {:#x} (bit i = a read ends at offset i+1) of {:?}: {}", mask, show(&data), v.message);
            return Err(v);
        }
    }
    // writer side: every partition of what the writer emits
    let wcfg = WriterCfg {
        ctor: w.draw(3) as u8,
        cap: *w.pick(&[8192usize, 0, 1, 2, 3, 7]),
        wrap: if kind == Kind::Fasta && w.chance(1, 2) { Some(1 + w.draw(2) as usize) } else { None },
        wrap2: None,
        api: w.draw(3) as u8,
        flush: w.chance(1, 2),
        flush_each: w.chance(1, 4),
        preload: false,
    };
    let out_len = reference_bytes(kind, &wcfg, &recs)?.len();
    if out_len >= 2 && out_len <= limit + 4 {
        w.fired("all_write_partitions");
        for mask in 0..(1u64 << (out_len - 1)) {
            let wio = IoCfg {
                chunk: crate::world::Chunk::Mask(mask),
                eintr_pm: 0,
                eio_pm: 0,
            };
            if let Err(mut v) = producer_phase(w, kind, &recs, &wcfg, wio) {
                v.message = format!("write partition mask {:#x}: {}", mask, v.message);
                return Err(v);
            }
        }
    }
    Ok(())
}

fn fa_cut_sweep(w: &W) -> Verdict {
    cut_sweep(w, Kind::Fasta)
}
fn fq_cut_sweep(w: &W) -> Verdict {
    cut_sweep(w, Kind::Fastq)
}

fn fa_roundtrip(w: &W) -> Verdict {
    roundtrip(w, Kind::Fasta, false)
}
fn fq_roundtrip(w: &W) -> Verdict {
    roundtrip(w, Kind::Fastq, false)
}
fn fa_cut(w: &W) -> Verdict {
    roundtrip(w, Kind::Fasta, true)
}
fn fq_cut(w: &W) -> Verdict {
    roundtrip(w, Kind::Fastq, true)
}

const STRUCT_BYTES: &[u8] = b">@+\n\r \tACGTid!I~\xff\xc3\x00;";

fn fx_garbage(w: &W) -> Verdict {
    let kind = if w.chance(1, 2) { Kind::Fastq } else { Kind::Fasta };
    let mode = w.draw(3);
    let mut bytes: Vec<u8>;
    let mut recs = vec![];
    match mode {
        0 => {
            let n = w.small(0, 64);
            bytes = (0..n).map(|_| *w.pick(STRUCT_BYTES)).collect();
            w.fired("garbage_structural");
        }
        1 => {
            let n = w.small(0, 64);
            bytes = (0..n).map(|_| w.draw(256) as u8).collect();
            w.fired("garbage_uniform");
        }
        _ => {
            recs = gen_records(w, kind, Scale::Small, None, false);
            let splits: Vec<Vec<usize>> = recs.iter().map(|r| split_points(w, r.seq.len(), 3)).collect();
            let crlf = w.chance(1, 3);
            bytes = layout(kind, &recs, &splits, crlf).bytes;
            let k = 1 + w.draw(4);
            for _ in 0..k {
                if bytes.is_empty() {
                    bytes.push(*w.pick(STRUCT_BYTES));
                    continue;
                }
                let pos = w.draw(bytes.len() as u64) as usize;
                let b = if w.chance(1, 2) { *w.pick(STRUCT_BYTES) } else { w.draw(256) as u8 };
                match w.draw(3) {
                    0 => bytes[pos] = b,
                    1 => bytes.insert(pos, b),
                    _ => {
                        bytes.remove(pos);
                    }
                }
            }
            w.fired("corrupt");
        }
    }
    if w.chance(1, 40) {
        // a long run of one structural byte (thousands of blank lines, of '>' or of '@'): code
        // that recurses, or grows a buffer, once per skipped byte or line
        let n = match w.draw(8) {
            0 => 1usize << 20,
            1 | 2 => 4096 + w.draw(8192) as usize,
            _ => 70_000,
        };
        let b = *w.pick(b"\n \r>@+\tA");
        let at = match w.draw(3) {
            0 => 0,
            1 => bytes.len(),
            _ => w.draw(bytes.len() as u64 + 1) as usize,
        };
        bytes.splice(at..at, std::iter::repeat(b).take(n));
        w.probe("garbage_with_long_run_of_one_byte");
    }
    if !bytes.is_empty() {
        w.probe("workload_nonempty");
    }
    if std::str::from_utf8(&bytes).is_err() {
        w.probe("garbage_invalid_utf8");
    }
    let faults_on = w.chance(1, 2);
    let mut rc = gen_reader_cfg(w, true, false, None);
    if !faults_on {
        rc.io = IoCfg::CLEAN;
    }
    let data = Rc::new(bytes);
    note_common(w, &rc, &data);
    if w.keep_trace {
        w.note("format", json!(format!("{:?}", kind)));
        w.note("valid_file_before_corruption", json!(recs.iter().map(|r| r.json()).collect::<Vec<_>>()));
    }
    w.clause("C11.d-nopanic");
    w.clause("C11.d-livelock");
    let (p, _cuts) = consumer_phase(w, kind, &data, &rc);
    if w.keep_trace {
        w.note("parsed", json!({"records": p.recs.len(), "errors": p.errs.len(), "items": p.items}));
    }
    if !p.ended {
        return fail(
            "C11.d-livelock",
            format!("iterator yielded {} items for a {}-byte stream without ending", p.items, data.len()),
        );
    }
    if !p.errs.is_empty() {
        w.probe("garbage_rejected_with_error");
    }
    Ok(())
}

pub fn property() -> Property {
    Property {
        id: "C11",
        scenarios: vec![
            Scenario { name: "fa-roundtrip", weight: 12, run: fa_roundtrip },
            Scenario { name: "fq-roundtrip", weight: 12, run: fq_roundtrip },
            Scenario { name: "fa-cut", weight: 8, run: fa_cut },
            Scenario { name: "fq-cut", weight: 12, run: fq_cut },
            Scenario { name: "fx-garbage", weight: 8, run: fx_garbage },
            Scenario { name: "fa-cut-sweep", weight: 4, run: fa_cut_sweep },
            Scenario { name: "fq-cut-sweep", weight: 4, run: fq_cut_sweep },
            Scenario { name: "fx-partitions", weight: 1, run: partitions },
        ],
        panic_clause: "C11.d-nopanic",
        livelock_clause: "C11.d-livelock",
        rule: "one run = one seeded execution of writer → simulated file → reader: record list, writer/reader constructor and capacity, write/read fragmentation regime, EINTR, storage event (identity, CRLF, foreign re-layout, cut offset, corruption) all drawn from one choice stream. Non-trivial = at least one record (or one garbage byte) AND at least one fault or non-default knob actually fired. Distinct = distinct schedule signature: hash of scenario, storage event and the sequence of (call kind, requested-size class, outcome class) of every endpoint call; record contents are NOT part of the signature. Sweep scenarios play every cut offset of one small file (fa/fq-cut-sweep) and every partition of one tiny file into read() chunks and of the writer's output into write() chunks (fx-partitions); one sweep counts as one run.",
        real: &["bio::io::fasta::{Reader, Records, Writer, Record (incl. Display)}", "bio::io::fastq::{Reader, Records, Writer, Record (incl. check, Display)}", "bio::io::fastx::{EitherRecords, get_kind, get_kind_seek}", "std::io::{BufReader, BufWriter, Chain, Cursor, read_line, read_exact, write_all}"],
        stubs: &["the OS file/pipe under the writer (SimWrite: short writes, EINTR)", "the OS file/pipe under the reader (SimRead/SimBufRead/SimSeekRead: short reads, EINTR)", "the foreign tool that re-wraps a file or converts it to CRLF (harness serialiser)", "producer crash / media fault (cut, byte corruption applied to the stored image)"],
        assumptions: &[
            "domain of 'valid record': id without Unicode white space; description absent or without line breaks (empty descriptions and descriptions ending in white space are generated only for known finding K1: 1 description in 25 in the plain round-trip scenarios, own clause); sequence 1..=40 (1 run in 50: up to 20000) ASCII residues without white space, '>' or '+'; qualities bytes 33..=126",
            "hard read/write errors and full disks are not injected: the property does not constrain the outcome",
            "an Err(kind=Interrupted) is accepted only in runs where EINTR was injected and fired, and then everything read before it must be a correct prefix",
            "sampling, not proof: coverage is what the counters in this file say",
        ],
        expected_probes: &[
            "header_split_across_reads", "cr_lf_in_different_reads", "utf8_char_split_across_reads", "first_byte_delivered_alone",
            "cut_at_record_boundary", "cut_inside_header", "cut_inside_plus_line", "cut_inside_quality", "cut_inside_sequence", "cut_inside_terminator",
            "quality_starts_with_at", "quality_starts_with_plus", "writer_buffer_smaller_than_field", "relayout_multiline_crlf",
            "sniffer_used", "description_with_annotation_words", "records_iterator_driven_through_methods", "realistic_read_names", "related_fields_or_records", "description_empty_or_ending_in_whitespace", "sniff_seek_stream_not_at_zero", "magic_size_run", "wrap_equals_magic_and_sequence_reaches_it", "large_regime", "many_records_regime", "huge_regime", "cut_sweep", "all_partitions_sweep", "garbage_invalid_utf8", "garbage_rejected_with_error",
        ],
        quick_runs: 400_000,
        thorough_runs: 30_000_000,
    }
}
