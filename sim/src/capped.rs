//! Memory as a simulated resource with a per-run budget. While a run executes, its thread may hold
//! at most PER_RUN_CAP bytes of allocations made during that run; the allocation that would exceed
//! it fails (null: Rust then aborts the process, which `check` isolates by bisection and reports
//! under the no-panic clause). A process-wide cap (`ulimit -v`, still set as a backstop) alone made
//! that failure depend on what the other fifteen workers happened to hold at that instant — a crash
//! that did not recur when the run was re-executed alone (seen with seeded change S67). Counting
//! starts from zero at every run, so the failure is a function of the run alone. The unchanged
//! tree stays under 100 MiB per run in every regime.

use std::alloc::{GlobalAlloc, Layout, System};
use std::cell::Cell;

pub const PER_RUN_CAP: usize = 1536 << 20;

thread_local! {
    static LIVE: Cell<usize> = const { Cell::new(0) };
    static ENABLED: Cell<bool> = const { Cell::new(false) };
}

/// Execute `f` (one simulated run) under the per-run budget.
pub fn scoped<T>(f: impl FnOnce() -> T) -> T {
    struct Off;
    impl Drop for Off {
        fn drop(&mut self) {
            ENABLED.with(|e| e.set(false));
        }
    }
    LIVE.with(|l| l.set(0));
    ENABLED.with(|e| e.set(true));
    let _off = Off;
    f()
}

fn charge(n: usize) -> bool {
    if !ENABLED.try_with(|e| e.get()).unwrap_or(false) {
        return true;
    }
    LIVE.try_with(|l| {
        let now = l.get().saturating_add(n);
        if now > PER_RUN_CAP {
            false
        } else {
            l.set(now);
            true
        }
    })
    .unwrap_or(true)
}

fn uncharge(n: usize) {
    if ENABLED.try_with(|e| e.get()).unwrap_or(false) {
        let _ = LIVE.try_with(|l| l.set(l.get().saturating_sub(n)));
    }
}

pub struct Capped;

unsafe impl GlobalAlloc for Capped {
    unsafe fn alloc(&self, layout: Layout) -> *mut u8 {
        if !charge(layout.size()) {
            return std::ptr::null_mut();
        }
        let p = System.alloc(layout);
        if p.is_null() {
            uncharge(layout.size());
        }
        p
    }
    unsafe fn alloc_zeroed(&self, layout: Layout) -> *mut u8 {
        if !charge(layout.size()) {
            return std::ptr::null_mut();
        }
        let p = System.alloc_zeroed(layout);
        if p.is_null() {
            uncharge(layout.size());
        }
        p
    }
    unsafe fn dealloc(&self, ptr: *mut u8, layout: Layout) {
        System.dealloc(ptr, layout);
        uncharge(layout.size());
    }
    unsafe fn realloc(&self, ptr: *mut u8, layout: Layout, new_size: usize) -> *mut u8 {
        let old = layout.size();
        if new_size > old && !charge(new_size - old) {
            return std::ptr::null_mut();
        }
        let p = System.realloc(ptr, layout, new_size);
        if p.is_null() {
            if new_size > old {
                uncharge(new_size - old);
            }
        } else if new_size < old {
            uncharge(old - new_size);
        }
        p
    }
}
