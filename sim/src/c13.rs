//! C13 — BED and GFF/GTF records survive write-read without loss.
//!
//! producer (bed::Writer / gff::Writer over SimWrite, attribute hash order owned by the simulator)
//! → storage (identity | comment lines | targeted field damage | byte corruption | cut)
//! → consumer (bed::Reader / gff::Reader over SimRead).

use crate::c11::PlainSink;
use crate::gen::{show, string_from};
use crate::runner::{fail, Property, Scenario, Verdict, Violation};
use crate::world::{IoCfg, SimRead, SimWrite, World, W};
use bio::io::{bed, gff};
use multimap::MultiMap;
use serde_json::json;
use std::cell::RefCell;
use std::rc::Rc;

/// Field alphabet: every printable ASCII character, blank, carriage return and some multi-byte
/// and control characters (exercises csv quoting); no tab, no '\n'. 'a' first (simplest).
fn field_chars() -> &'static [char] {
    static A: std::sync::OnceLock<Vec<char>> = std::sync::OnceLock::new();
    A.get_or_init(|| {
        let mut v = vec!['a', '1', '+', '-', '.', ' ', ',', ';', '"', '\'', '#', '\r', 'é', '中', '=', '%'];
        for c in 33u8..=126 {
            if !v.contains(&(c as char)) {
                v.push(c as char);
            }
        }
        v.extend(['😀', '\u{1}', '\u{7f}', '\u{a0}', '\u{0}', '\u{b}', '\u{301}', '１', 'ｅ', 'à', 'Å', '\u{feff}']);
        v.extend(crate::gen::LOW_BYTE_SPECIAL);
        v
    })
}

/// Strings that look special to parsers or spreadsheets.
const WORDS: [&str; 44] = [
    "~", "NULL",
    // pairs that collide under common 32-bit hashes (FNV-1a, CRC32, Java hashCode)
    "costarring", "liquid", "declinate", "macallums", "altarage", "zinke", "Aa", "BB", "plumless", "buckeroo",
    "NA", "true", "false", "null", "None", "%3B", "%09", "1e5", "-0", "+1", "0x10", "inf", "NaN", "1.0", "00", ".", "-", "+", "\\N", "\\t",
    // values as annotation pipelines write them
    "GeneID:1234", "HGNC:5", "ENSG00000223972.5", "protein_coding", "TRUE", "1e3", "0x1F", "+.", "%2C", "%3D", "%25", "exon_number",
];

/// First-column values that other tools or formats give a meaning to.
const FIRST_COLUMN_WORDS: [&str; 12] = [
    "track", "browser", "track_7", "tracking", "browser position", "track name=x", "chr1", "MT", "*", "=", "##", "@SQ",
];

fn gen_field(w: &World, lo: u64, hi: u64, first_col: bool) -> String {
    if first_col && w.chance(1, 15) {
        let wd = FIRST_COLUMN_WORDS[w.draw(FIRST_COLUMN_WORDS.len() as u64) as usize];
        if !wd.starts_with('#') {
            return wd.to_string();
        }
        return format!("c{}", wd);
    }
    let mut s = match w.draw(12) {
        0 => WORDS[w.draw(WORDS.len() as u64) as usize].to_string(),
        1 => string_from(w, field_chars(), lo, hi.max(300)),
        3 if w.chance(1, 600) && w.take_big(1 << 21) => {
            // a field of a megabyte: beyond every internal buffer
            w.probe("megabyte_field");
            std::iter::repeat('m').take(*w.pick(&[1usize << 20, (1 << 20) + 1, 70_000, 65_536])).collect()
        }
        2 if w.chance(1, 8) => {
            // a field of a boundary length (255, 256, 4096, 8192, ...): csv and BufWriter buffers
            let n = crate::gen::magic_size(w, 14);
            let c = *w.pick(field_chars());
            let c = if c == '\0' || c == '\r' { 'x' } else { c };
            std::iter::repeat(c).take(n).collect()
        }
        _ => string_from(w, field_chars(), lo, hi),
    };
    if w.wild.get() && w.chance(1, 5) {
        // tabs and line feeds inside a field: representable only through csv quoting
        let at = w.draw(s.chars().count() as u64 + 1) as usize;
        let byte_at = s.char_indices().nth(at).map(|(i, _)| i).unwrap_or(s.len());
        s.insert_str(byte_at, *w.pick(&["\t", "\n", "\r\n", "\n#", "\t\t"]));
        w.probe("field_with_tab_or_line_feed");
    }
    if first_col && s.starts_with('#') {
        // a first column starting with '#' *is* a comment line in BED/GFF: outside the domain
        s.insert(0, 'c');
    }
    s
}

fn gen_u64(w: &World) -> u64 {
    match w.draw(6) {
        0 => w.draw(10),
        1 => w.draw(100_000),
        2 => u64::MAX - w.draw(3),
        3 => w.draw(u64::MAX),
        4 => 1 << w.draw(64),
        _ => w.draw(1_000_000_000),
    }
}

// ---------------------------------------------------------------------------------------------
// BED

#[derive(Clone, Debug, PartialEq, Eq)]
struct BedModel {
    chrom: String,
    start: u64,
    end: u64,
    aux: Vec<String>,
}

impl BedModel {
    fn json(&self) -> serde_json::Value {
        json!({"chrom": self.chrom, "start": self.start, "end": self.end, "aux": self.aux})
    }
    /// `via_setters`: 0 = push_aux only; 1 = set_name, set_score, push_aux…; 2 = set_score first
    /// (which creates an empty name), then set_name; 3 = as 1 but every setter called twice, the
    /// first time with a throw-away value (setters must overwrite, not append).
    fn to_record(&self, via_setters: u8) -> bed::Record {
        let mut r = bed::Record::new();
        if via_setters == 3 {
            r.set_chrom("tmp");
            r.set_start(7);
            r.set_end(9);
        }
        r.set_chrom(&self.chrom);
        r.set_start(self.start);
        r.set_end(self.end);
        if via_setters > 0 && self.aux.len() >= 2 && self.aux[0].is_empty() {
            // "score without a name": set_score alone must create the empty name column itself
            r.set_score(&self.aux[1]);
            for a in &self.aux[2..] {
                r.push_aux(a);
            }
        } else if via_setters > 0 && self.aux.len() >= 2 {
            match via_setters {
                1 => {
                    r.set_name(&self.aux[0]);
                    r.set_score(&self.aux[1]);
                }
                2 => {
                    r.set_score(&self.aux[1]);
                    r.set_name(&self.aux[0]);
                }
                _ => {
                    r.set_name("tmp-name");
                    r.set_score("tmp-score");
                    r.set_score(&self.aux[1]);
                    r.set_name(&self.aux[0]);
                }
            }
            for a in &self.aux[2..] {
                r.push_aux(a);
            }
        } else if via_setters > 0 && self.aux.len() == 1 {
            r.set_name("tmp-name");
            r.set_name(&self.aux[0]);
        } else {
            for a in &self.aux {
                r.push_aux(a);
            }
        }
        r
    }
    fn from_record(r: &bed::Record, k: usize) -> BedModel {
        let mut aux = vec![];
        let mut i = 3;
        while let Some(a) = r.aux(i) {
            aux.push(a.to_string());
            i += 1;
            if i > k + 64 {
                break;
            }
        }
        BedModel {
            chrom: r.chrom().to_string(),
            start: r.start(),
            end: r.end(),
            aux,
        }
    }
}

fn gen_bed(w: &World) -> (Vec<BedModel>, usize) {
    let k = if w.chance(1, 40) { w.small(0, 40) as usize } else { w.small(0, 9) as usize };
    let mut v: Vec<BedModel> = vec![];
    let many = w.chance(1, 100);
    // (1 many-records run in 12: thousands of records)
    let thousands = many && w.chance(1, 12);
    if many {
        w.probe("many_records_regime");
    }
    if thousands {
        w.probe("thousands_of_records");
    }
    loop {
        let go = if thousands { w.more_p(v.len() as u64, 4000, 1500, 1501) } else if many { w.more_p(v.len() as u64, 300, 100, 101) } else { w.more(v.len() as u64, 5) };
        if !go {
            break;
        }
        let chrom = gen_field(w, 0, 6, true);
        let start = gen_u64(w);
        let end = gen_u64(w);
        let aux = (0..k)
            .map(|i| {
                if i == 2 && w.chance(2, 3) {
                    ["+", "-", "."][w.draw(3) as usize].to_string()
                } else {
                    gen_field(w, 0, 6, false)
                }
            })
            .collect();
        let mut m = BedModel { chrom, start, end, aux };
        if w.chance(1, 12) {
            w.probe("related_fields_or_records");
            match (w.draw(4), v.last()) {
                (0, Some(prev)) => {
                    let size: usize = prev.chrom.len() + prev.aux.iter().map(|x| x.len()).sum::<usize>();
                    if size < 65_536 || w.take_big(size) {
                        m = prev.clone();
                    }
                }
                (1, Some(prev)) => m.chrom = prev.chrom.clone(),
                (2, _) => m.end = m.start,
                _ => {
                    m.start = i64::MAX as u64;
                    m.end = i64::MAX as u64 + 1;
                }
            }
        }
        if w.chance(1, 10) {
            // content that echoes another column, or the customary BED12 vocabulary
            w.probe("echoed_or_customary_content");
            match w.draw(6) {
                0 if k >= 1 => m.aux[0] = m.chrom.clone(),
                1 if k >= 2 => m.aux[1] = m.start.to_string(),
                2 if k >= 1 => m.aux[0] = m.end.to_string(),
                3 => {
                    let thick = w.draw(4);
                    let bed12 = [
                        "uc001aaa.3".to_string(),
                        (*w.pick(&["0", "1000", "960", "500", "1001", "-1", "65536", "0.5"])).to_string(),
                        (*w.pick(&["+", "-", "."])).to_string(),
                        // thickStart / thickEnd: the feature's own ends, "no thick part" written as
                        // 0 0 or as start start, or just the start twice
                        if thick == 1 || thick == 2 { "0".to_string() } else { m.start.to_string() },
                        if thick == 1 { "0".to_string() } else if thick == 3 { m.start.to_string() } else { m.end.to_string() },
                        (*w.pick(&["255,0,0", "0", "0,0,0", "#FF8000", "#000000", "#ffffff", "255,0,0,", "255 0 0"])).to_string(),
                        (*w.pick(&["2", "1", "3"])).to_string(),
                        (*w.pick(&["567,488,", "10,20", "1"])).to_string(),
                        (*w.pick(&["0,3512", "0,30,", "0"])).to_string(),
                    ];
                    for (i, x) in bed12.into_iter().enumerate().take(k) {
                        m.aux[i] = x;
                    }
                }
                4 => {
                    m.start = *w.pick(&[4294967295u64, 4294967296, 4294967297, 2147483647, 2147483648, 9007199254740993, 9223372036854775807, 9223372036854775808]);
                    m.end = m.start.saturating_add(w.draw(3));
                }
                _ => m.start = m.end.wrapping_add(1),
            }
        }
        if v.is_empty() && m.chrom.starts_with('\u{feff}') {
            // a byte order mark at the very start of a file is not content (csv drops it): the
            // first column of the first record does not begin with one
            m.chrom.insert(0, 'c');
        }
        v.push(m);
    }
    (v, k)
}

// ---------------------------------------------------------------------------------------------
// GFF

#[derive(Clone, Copy, Debug, PartialEq, Eq)]
enum Dialect {
    Gff3,
    Gff2,
    Gtf2,
}

impl Dialect {
    fn ty(self) -> gff::GffType {
        match self {
            Dialect::Gff3 => gff::GffType::GFF3,
            Dialect::Gff2 => gff::GffType::GFF2,
            Dialect::Gtf2 => gff::GffType::GTF2,
        }
    }
}

#[derive(Clone, Debug, PartialEq, Eq)]
struct GffModel {
    seqname: String,
    source: String,
    feature: String,
    start: u64,
    end: u64,
    score: String,
    strand: String,
    phase: Option<u8>,
    /// insertion order of keys; values per key in order
    attrs: Vec<(String, Vec<String>)>,
    /// the order in which the simulator makes the hash map iterate the keys
    order: Vec<usize>,
}

impl GffModel {
    fn json(&self) -> serde_json::Value {
        json!({"seqname": self.seqname, "source": self.source, "feature": self.feature, "start": self.start, "end": self.end,
               "score": self.score, "strand": self.strand, "phase": self.phase, "attributes": self.attrs, "hash_iteration_order": self.order})
    }
}

/// Attribute alphabets: printable ASCII and some multi-byte characters minus the dialect's
/// delimiters (GFF3: '=' ';' ','; GFF2/GTF2: blank ';' NUL), tab, line breaks and quote characters.
fn attr_chars(d: Dialect) -> &'static [char] {
    static G3: std::sync::OnceLock<Vec<char>> = std::sync::OnceLock::new();
    static G2: std::sync::OnceLock<Vec<char>> = std::sync::OnceLock::new();
    let build = |forbidden: &[char], first: &[char]| -> Vec<char> {
        let mut v: Vec<char> = first.to_vec();
        for c in 33u8..=126 {
            let c = c as char;
            if !forbidden.contains(&c) && c != '"' && c != '\'' && !v.contains(&c) {
                v.push(c);
            }
        }
        v.extend(['é', '中', '😀', '\u{a0}', '\u{7f}', '\u{1}', '\u{301}', '１', 'à', 'Å', '\u{feff}']);
        v.extend(crate::gen::LOW_BYTE_SPECIAL);
        v
    };
    match d {
        Dialect::Gff3 => G3.get_or_init(|| build(&['=', ';', ','], &['k', 'v', 'I', 'D', '1', '_', ' ', '.', ':', '-', '%', '+'])),
        _ => G2.get_or_init(|| build(&[' ', ';'], &['k', 'v', 'I', 'D', '1', '_', '.', ':', '-', '=', ',', '%'])),
    }
}

fn gen_attr_string(w: &World, d: Dialect, is_key: bool) -> String {
    let mut s = match w.draw(14) {
        0 => {
            let wd = WORDS[w.draw(WORDS.len() as u64) as usize];
            // words are free of every dialect's delimiters except the ones filtered here
            if wd.contains(['=', ';', ',', ' ', '\\']) || is_key && wd == "." { "kw".to_string() } else { wd.to_string() }
        }
        1 => string_from(w, attr_chars(d), 1, 200),
        2 if w.chance(1, 12) => {
            // a key or value of a boundary length (up to 16 KiB + 1): regex, csv and writer buffers
            let n = crate::gen::magic_size(w, 14);
            let c = *w.pick(attr_chars(d));
            let c = if c == ' ' { 'x' } else { c };
            std::iter::repeat(c).take(n).collect()
        }
        _ => string_from(w, attr_chars(d), 1, 6),
    };
    if d == Dialect::Gff3 && is_key && s.starts_with(' ') {
        // the GFF3 reader skips blanks in front of a key by design
        s.insert(0, 'k');
    }
    s
}

fn gen_gff(w: &World, d: Dialect) -> Vec<GffModel> {
    let mut v: Vec<GffModel> = vec![];
    let many = w.chance(1, 100);
    // (1 many-records run in 12: thousands of records)
    let thousands = many && w.chance(1, 12);
    if many {
        w.probe("many_records_regime");
    }
    if thousands {
        w.probe("thousands_of_records");
    }
    loop {
        let go = if thousands { w.more_p(v.len() as u64, 4000, 1500, 1501) } else if many { w.more_p(v.len() as u64, 300, 100, 101) } else { w.more(v.len() as u64, 4) };
        if !go {
            break;
        }
        let mut attrs: Vec<(String, Vec<String>)> = vec![];
        let many_values = w.chance(1, 40);
        if many_values {
            w.probe("many_values_record");
        }
        // at most 5 keys — 1 record in 60: at most 6 — because the hash order of the keys is forced
        // by rejection sampling (5! = 120, 6! = 720 expected tries of about a microsecond each)
        // (and 1 record in 1500: up to 8 keys, 40 320 expected tries of about a microsecond)
        let max_keys = if w.chance(1, 1500) {
            w.probe("record_with_up_to_8_keys");
            8
        } else if w.chance(1, 60) {
            6
        } else {
            5
        };
        while w.more_p(attrs.len() as u64, max_keys, if max_keys > 5 { 9 } else { 2 }, if max_keys > 5 { 10 } else { 3 }) {
            let mut key = match w.draw(11) {
                // keys that carry meaning in GFF3 / GTF and might be special-cased
                10 => (*w.pick(&["ID", "Parent", "Name", "Note", "gene_id", "transcript_id", "Dbxref", "Target", "Is_circular", "Alias"])).to_string(),
                // a key that extends an earlier key of this record
                0 if !attrs.is_empty() => format!("{}{}", attrs[w.draw(attrs.len() as u64) as usize].0, gen_attr_string(w, d, false)),
                // a key that differs from an earlier one only in letter case
                1 if !attrs.is_empty() => {
                    let k = &attrs[w.draw(attrs.len() as u64) as usize].0;
                    let flipped: String = k.chars().map(|c| if c.is_ascii_lowercase() { c.to_ascii_uppercase() } else { c.to_ascii_lowercase() }).collect();
                    flipped
                }
                _ => gen_attr_string(w, d, true),
            };
            while attrs.iter().any(|(k, _)| *k == key) {
                key.push('2');
            }
            let mut vals = vec![gen_attr_string(w, d, false)];
            if many_values {
                // a record with dozens of values: sorting / hashing code changes behaviour with size
                while w.more_p(vals.len() as u64, 60, 19, 20) {
                    vals.push(gen_attr_string(w, d, false));
                }
            } else {
                let max_vals = if w.chance(1, 20) { 12 } else { 3 };
                while w.more(vals.len() as u64, max_vals) && w.chance(2, 3) {
                    vals.push(gen_attr_string(w, d, false));
                }
            }
            if w.chance(1, 15) {
                // a value equal to its key, or the same value twice
                let dup = if w.chance(1, 2) { key.clone() } else { vals[0].clone() };
                if !(d == Dialect::Gff3 && dup.starts_with(' ')) {
                    vals.push(dup);
                }
            }
            attrs.push((key, vals));
        }
        if !attrs.is_empty() && w.chance(1, 2500) && w.take_big(12 << 20) {
            // scale, far beyond what the other regimes reach: one key with tens of thousands of
            // values, or one value of several MiB (16-bit counters, size limits, splitn bounds)
            let k = w.draw(attrs.len() as u64) as usize;
            // (GFF2 and GTF2 repeat the key for every value: only a short key gets the many values)
            if w.chance(1, 2) && attrs[k].0.len() <= 32 {
                let n = *w.pick(&[65_535usize, 65_536, 65_537, 70_000, 4096, 1024]);
                let c = *w.pick(&['v', '1', 'é']);
                attrs[k].1 = (0..n).map(|i| if i % 7 == 0 { format!("{}{}", c, i % 10) } else { c.to_string() }).collect();
                w.probe("key_with_tens_of_thousands_of_values");
            } else {
                let n = *w.pick(&[(4usize << 20) + 1, 4 << 20, 5_000_000, (1 << 20) + 1]);
                attrs[k].1 = vec![std::iter::repeat('m').take(n).collect()];
                w.probe("attribute_value_of_several_mib");
            }
        }
        let nkeys = attrs.len();
        // hash iteration order: a permutation of the keys, drawn by the simulator
        let mut order: Vec<usize> = (0..nkeys).collect();
        for i in 0..nkeys {
            let j = i + w.draw((nkeys - i) as u64) as usize;
            order.swap(i, j);
        }
        let score = match w.draw(5) {
            0 => ".".to_string(),
            1 => format!("{}", w.draw(1000)),
            2 => "0.5".to_string(),
            _ => gen_field(w, 0, 4, false),
        };
        let strand = match w.draw(5) {
            0 => ".".to_string(),
            1 => "+".to_string(),
            2 => "-".to_string(),
            3 => "?".to_string(),
            _ => gen_field(w, 0, 2, false),
        };
        let phase = match w.draw(4) {
            0 => None,
            p => Some(p as u8 - 1),
        };
        let mut m = GffModel {
            seqname: gen_field(w, 0, 6, true),
            source: gen_field(w, 0, 6, false),
            feature: gen_field(w, 0, 6, false),
            start: gen_u64(w),
            end: gen_u64(w),
            score,
            strand,
            phase,
            attrs,
            order,
        };
        if w.chance(1, 12) {
            w.probe("related_fields_or_records");
            match (w.draw(6), v.last()) {
                (5, Some(prev)) if !prev.attrs.is_empty() => {
                    // the keys of the previous record again, with other values and other numbers of values
                    m.attrs = prev
                        .attrs
                        .iter()
                        .map(|(k, _)| {
                            let mut vals = vec![gen_attr_string(w, d, false)];
                            while w.more(vals.len() as u64, 3) && w.chance(1, 2) {
                                vals.push(gen_attr_string(w, d, false));
                            }
                            (k.clone(), vals)
                        })
                        .collect();
                    m.order = prev.order.clone();
                    if w.chance(1, 2) {
                        m.order.reverse();
                    }
                }
                (0, Some(prev)) => {
                    // the identical line twice in a row (a large one is charged to the budget again)
                    let size: usize = prev.attrs.iter().map(|(k, vs)| k.len() + vs.iter().map(|x| x.len() + 24).sum::<usize>()).sum::<usize>() + prev.seqname.len() + prev.source.len() + prev.feature.len();
                    if size < 65_536 || w.take_big(size) {
                        m = prev.clone();
                    }
                }
                (1, Some(prev)) => m.seqname = prev.seqname.clone(),
                (2, _) => m.source = m.seqname.clone(),
                (3, _) => m.end = m.start,
                _ => {
                    m.score = "1000".to_string();
                    m.strand = "-".to_string();
                    m.phase = Some(0);
                }
            }
        }
        if w.chance(1, 10) {
            // content that echoes another column of the same line, or a customary vocabulary: code
            // that special-cases "score equals start", a value equal to the sequence name or a
            // Sequence Ontology term is reached on purpose rather than by luck
            w.probe("echoed_or_customary_content");
            let ok = |s: &str| !s.is_empty() && !s.starts_with(' ') && s.chars().all(|c| attr_chars(d).contains(&c));
            let nattrs = m.attrs.len() as u64;
            match w.draw(8) {
                0 => m.score = m.start.to_string(),
                1 => m.score = m.end.to_string(),
                2 => m.feature = (*if w.chance(1, 2) { w.pick(&SO_TERMS) } else { w.pick(&GTF_TERMS) }).to_string(),
                3 if nattrs > 0 => {
                    let src = match w.draw(4) {
                        0 => m.seqname.clone(),
                        1 => m.feature.clone(),
                        2 => m.start.to_string(),
                        _ => m.source.clone(),
                    };
                    if ok(&src) {
                        let (_, vals) = &mut m.attrs[w.draw(nattrs) as usize];
                        let at = w.draw(vals.len() as u64) as usize;
                        vals[at] = src;
                    }
                }
                4 => {
                    m.source = (*w.pick(&["ensembl", "havana", "RefSeq", "GenBank", "."])).to_string();
                    m.feature = (*w.pick(&SO_TERMS)).to_string();
                }
                5 => m.start = m.end.wrapping_add(1), // the empty interval of 1-based closed coordinates
                6 => {
                    m.start = *w.pick(&[4294967295u64, 4294967296, 4294967297, 2147483647, 2147483648, 9007199254740993, 9223372036854775807, 9223372036854775808]);
                    m.end = m.start.saturating_add(w.draw(3));
                }
                _ => m.strand = m.score.clone(),
            }
        }
        if v.is_empty() && m.seqname.starts_with('\u{feff}') {
            m.seqname.insert(0, 'c');
        }
        v.push(m);
    }
    v
}

/// Comment lines (after the leading '#') that carry meaning for other tools: version pragmas,
/// sequence regions, the FASTA and forward-reference directives, track and browser lines.
const PRAGMAS: [&str; 16] = [
    "#gff-version 3", "#gff-version 2", "#gff-version 3.1.26", "#gff-version 2.2", "#gtf-version 2.2", "#sequence-region chr1 1 1000", "##", "#FASTA",
    "#species x", "!genome-build GRCh38", "track name=x", "browser position chr1:1-10", "#gff-version\t3", "#gff-version", " gff-version 2", "#date 2020-01-01",
];

/// Feature types of the Sequence Ontology as used by GFF3/GTF producers.
const SO_TERMS: [&str; 14] = [
    "gene", "mRNA", "exon", "CDS", "five_prime_UTR", "three_prime_UTR", "start_codon", "stop_codon", "region", "transcript", "intron", "ncRNA_gene",
    "Selenocysteine", "biological_region",
];
/// Feature names of GTF2.2 and of older GFF producers.
const GTF_TERMS: [&str; 8] = ["5UTR", "3UTR", "inter", "inter_CNS", "intron_CNS", "UTR", "Exon", "cds"];

/// Build a MultiMap whose iteration order over keys is `order` (indices into `attrs`): the one
/// nondeterministic order in this code path, owned by the simulator through rejection sampling
/// over fresh `RandomState`s. Returns None if the order could not be obtained (never observed).
fn multimap_with_order(attrs: &[(String, Vec<String>)], order: &[usize], tries: &mut u64) -> Option<MultiMap<String, String>> {
    // The order in which the map iterates its keys depends on the hasher and on the keys, not on
    // the values: try fresh hashers with the first value of every key only, and add the other
    // values (which go to the end of their key's list and move no key) once the order is right.
    // Expected number of tries: (number of keys)!
    let cap = if attrs.len() > 7 { 3_000_000 } else { 200_000 };
    for _ in 0..cap {
        *tries += 1;
        let mut m: MultiMap<String, String> = MultiMap::new();
        for (k, vs) in attrs {
            m.insert(k.clone(), vs[0].clone());
        }
        let ok = {
            let got: Vec<&String> = m.iter_all().map(|(k, _)| k).collect();
            got.len() == order.len() && got.iter().zip(order.iter()).all(|(g, &o)| **g == attrs[o].0)
        };
        if ok {
            for (k, vs) in attrs {
                for v in &vs[1..] {
                    m.insert(k.clone(), v.clone());
                }
            }
            return Some(m);
        }
    }
    None
}

fn gff_record(m: &GffModel, tries: &mut u64) -> Option<gff::Record> {
    let mut r = gff::Record::new();
    *r.seqname_mut() = m.seqname.clone();
    *r.source_mut() = m.source.clone();
    *r.feature_type_mut() = m.feature.clone();
    *r.start_mut() = m.start;
    *r.end_mut() = m.end;
    *r.score_mut() = m.score.clone();
    *r.strand_mut() = m.strand.clone();
    *r.phase_mut() = gff::Phase::from(m.phase);
    *r.attributes_mut() = multimap_with_order(&m.attrs, &m.order, tries)?;
    Some(r)
}

fn gff_model_of(r: &gff::Record) -> serde_json::Value {
    let mut c = r.clone();
    let mut attrs: Vec<(String, Vec<String>)> = r.attributes().iter_all().map(|(k, v)| (k.clone(), v.clone())).collect();
    attrs.sort();
    json!({"seqname": r.seqname(), "source": r.source(), "feature": r.feature_type(), "start": r.start(), "end": r.end(),
           "score": c.score_mut().clone(), "strand": c.strand_mut().clone(), "phase": format!("{:?}", r.phase()), "attributes": attrs})
}

/// The phase as the plain value it stands for (through the public conversion, not through `==`
/// with a Phase built by the same library).
fn phase_of(p: &gff::Phase) -> Option<u8> {
    use std::convert::TryInto;
    let o: Result<Option<u8>, ()> = p.clone().try_into();
    o.unwrap_or(None)
}

/// Field-by-field comparison of what was read with what was written.
fn gff_compare(read: &gff::Record, m: &GffModel, wrote: &gff::Record) -> Result<(), (&'static str, String)> {
    let mut rc = read.clone();
    if read.seqname() != m.seqname
        || read.source() != m.source
        || read.feature_type() != m.feature
        || *read.start() != m.start
        || *read.end() != m.end
        || *rc.score_mut() != m.score
        || *rc.strand_mut() != m.strand
        || phase_of(read.phase()) != m.phase
        || read.score() != (if m.score == "." { None } else { m.score.parse::<u64>().ok() })
        || !strand_matches(read.strand(), Some(m.strand.as_str()))
    {
        return Err(("C13.b-gff-fields", format!("fixed columns differ: read {} but wrote {}", gff_model_of(read), m.json())));
    }
    for (k, vs) in &m.attrs {
        match read.attributes().get_vec(k) {
            Some(got) if got == vs => {}
            got => {
                return Err((
                    "C13.c-attributes",
                    format!("key {:?}: wrote {:?}, read back {:?} (hash iteration order of keys when written: {:?})", k, vs, got, m.order.iter().map(|&i| &m.attrs[i].0).collect::<Vec<_>>()),
                ))
            }
        }
    }
    if read.attributes().len() != m.attrs.len() {
        // sorted: the map read back iterates in its own random hash order, messages must not
        let mut extra: Vec<&String> = read.attributes().keys().filter(|k| !m.attrs.iter().any(|(mk, _)| mk == *k)).collect();
        extra.sort();
        return Err(("C13.c-attributes", format!("read back keys that were never written: {:?}", extra)));
    }
    if read != wrote {
        return Err(("C13.b-gff-fields", format!("records differ as a whole (PartialEq): read {}, wrote {}", gff_model_of(read), gff_model_of(wrote))));
    }
    Ok(())
}

// ---------------------------------------------------------------------------------------------
// shared plumbing

#[derive(Clone, Copy, PartialEq, Eq, Debug)]
enum Fmt {
    Bed,
    Gff(Dialect),
}

enum Item<T> {
    Ok(T),
    Err { eintr: bool, text: String },
}

fn csv_is_eintr(e: &csv::Error) -> bool {
    match e.kind() {
        csv::ErrorKind::Io(ioe) => ioe.kind() == std::io::ErrorKind::Interrupted,
        _ => false,
    }
}

fn read_bed(w: &W, data: &Rc<Vec<u8>>, io: IoCfg) -> (Vec<Item<bed::Record>>, bool, Vec<usize>) {
    read_bed_opts(w, data, io, true)
}

/// `may_recreate`: whether the run may ask for a new records() iterator in mid-stream
fn read_bed_opts(w: &W, data: &Rc<Vec<u8>>, io: IoCfg, may_recreate: bool) -> (Vec<Item<bed::Record>>, bool, Vec<usize>) {
    let src = SimRead::new(w, data.clone(), io, "src");
    let cuts = src.cuts.clone();
    w.set_budget(8 * data.len() as u64 + 1000);
    let max_items = data.len() + 2;
    let mut rd = bed::Reader::new(src);
    let mut items = vec![];
    let mut ended = false;
    // 1 reader in 6 asks for a new records() iterator after every `again` items: the new iterator
    // must carry on where the previous one stopped
    let again = if may_recreate && w.chance(1, 6) { 1 + w.draw(3) as usize } else { 0 };
    if again > 0 {
        w.probe("records_iterator_recreated_mid_stream");
    }
    'outer: loop {
        let mut it = rd.records();
        loop {
            match it.next() {
                None => {
                    ended = true;
                    // poking a finished iterator again must be harmless
                    let _ = it.next();
                    break 'outer;
                }
                Some(Ok(r)) => items.push(Item::Ok(r)),
                Some(Err(e)) => items.push(Item::Err { eintr: csv_is_eintr(&e), text: e.to_string() }),
            }
            if items.len() > max_items {
                break 'outer;
            }
            if again > 0 && items.len() % again == 0 {
                continue 'outer;
            }
        }
    }
    w.set_budget(u64::MAX);
    let c = cuts.borrow().clone();
    (items, ended, c)
}

fn read_gff(w: &W, data: &Rc<Vec<u8>>, io: IoCfg, d: Dialect) -> (Vec<Item<gff::Record>>, bool, Vec<usize>) {
    read_gff_opts(w, data, io, d, true)
}

fn read_gff_opts(w: &W, data: &Rc<Vec<u8>>, io: IoCfg, d: Dialect, may_recreate: bool) -> (Vec<Item<gff::Record>>, bool, Vec<usize>) {
    let src = SimRead::new(w, data.clone(), io, "src");
    let cuts = src.cuts.clone();
    w.set_budget(8 * data.len() as u64 + 1000);
    let max_items = data.len() + 2;
    let mut rd = gff::Reader::new(src, d.ty());
    let mut items = vec![];
    let mut ended = false;
    // 1 reader in 6 asks for a new records() iterator after every `again` items: the new iterator
    // must carry on where the previous one stopped
    let again = if may_recreate && w.chance(1, 6) { 1 + w.draw(3) as usize } else { 0 };
    if again > 0 {
        w.probe("records_iterator_recreated_mid_stream");
    }
    'outer: loop {
        let mut it = rd.records();
        loop {
            match it.next() {
                None => {
                    ended = true;
                    // poking a finished iterator again must be harmless
                    let _ = it.next();
                    break 'outer;
                }
                Some(Ok(r)) => items.push(Item::Ok(r)),
                Some(Err(e)) => items.push(Item::Err { eintr: csv_is_eintr(&e), text: e.to_string() }),
            }
            if items.len() > max_items {
                break 'outer;
            }
            if again > 0 && items.len() % again == 0 {
                continue 'outer;
            }
        }
    }
    w.set_budget(u64::MAX);
    let c = cuts.borrow().clone();
    (items, ended, c)
}

struct Workload {
    fmt: Fmt,
    bed: Vec<BedModel>,
    bed_recs: Vec<bed::Record>,
    k: usize,
    gff: Vec<GffModel>,
    gff_recs: Vec<gff::Record>,
    /// the caller keeps one record object and overwrites its fields between write() calls
    reuse: bool,
}

impl Workload {
    fn len(&self) -> usize {
        match self.fmt {
            Fmt::Bed => self.bed.len(),
            Fmt::Gff(_) => self.gff.len(),
        }
    }
    fn json(&self) -> serde_json::Value {
        match self.fmt {
            Fmt::Bed => json!({"format": "BED", "aux_columns": self.k, "records": self.bed.iter().map(|b| b.json()).collect::<Vec<_>>()}),
            Fmt::Gff(d) => json!({"format": format!("{:?}", d), "records": self.gff.iter().map(|g| g.json()).collect::<Vec<_>>()}),
        }
    }
}

fn gen_workload(w: &W, fmt: Fmt) -> Result<Workload, Violation> {
    let mut wl = Workload {
        fmt,
        bed: vec![],
        bed_recs: vec![],
        k: 0,
        gff: vec![],
        gff_recs: vec![],
        reuse: false,
    };
    match fmt {
        Fmt::Bed => {
            let (v, k) = gen_bed(w);
            let via_setters = w.draw(4) as u8;
            wl.bed_recs = v.iter().map(|b| b.to_record(via_setters)).collect();
            wl.bed = v;
            wl.k = k;
        }
        Fmt::Gff(d) => {
            let v = gen_gff(w, d);
            let mut tries = 0u64;
            for m in &v {
                match gff_record(m, &mut tries) {
                    Some(r) => wl.gff_recs.push(r),
                    None => {
                        // cannot own the hash order for this record: harness limitation, not a verdict
                        panic!("sim: could not obtain requested hash iteration order after {} tries", tries);
                    }
                }
                if m.attrs.iter().any(|(_, vs)| vs.len() > 1) {
                    w.probe("multi_valued_attribute");
                }
                if m.order.iter().enumerate().any(|(i, &o)| i != o) {
                    w.probe("key_order_differs_from_insertion");
                    w.fired("hash_order_permuted");
                }
            }
            wl.gff = v;
        }
    }
    if wl.len() > 0 {
        w.probe("workload_nonempty");
    }
    // one record object overwritten between writes (BED: only the columns that setters can replace)
    wl.reuse = wl.len() > 1 && (wl.fmt != Fmt::Bed || wl.k <= 2) && w.chance(1, 5);
    if wl.reuse {
        w.probe("one_record_object_reused_for_all_writes");
    }
    if w.keep_trace {
        w.note("workload", wl.json());
        w.note("record_object_reused", json!(wl.reuse));
    }
    Ok(wl)
}

fn produce<S: std::io::Write>(wl: &Workload, sink: S) -> Result<(), String> {
    match wl.fmt {
        Fmt::Bed => {
            let mut wr = bed::Writer::new(sink);
            if wl.reuse {
                let mut cur = wl.bed_recs[0].clone();
                for (i, m) in wl.bed.iter().enumerate() {
                    if i > 0 {
                        cur.set_chrom(&m.chrom);
                        cur.set_start(m.start);
                        cur.set_end(m.end);
                        if wl.k >= 1 {
                            cur.set_name(&m.aux[0]);
                        }
                        if wl.k >= 2 {
                            cur.set_score(&m.aux[1]);
                        }
                    }
                    wr.write(&cur).map_err(|e| e.to_string())?;
                }
                return Ok(());
            }
            for (j, r) in wl.bed_recs.iter().enumerate() {
                // every other record goes through Clone first
                if j % 2 == 1 {
                    wr.write(&r.clone()).map_err(|e| e.to_string())?;
                } else {
                    wr.write(r).map_err(|e| e.to_string())?;
                }
            }
        }
        Fmt::Gff(d) => {
            let mut wr = gff::Writer::new(sink, d.ty());
            if wl.reuse {
                let mut cur = gff::Record::new();
                for (m, r) in wl.gff.iter().zip(&wl.gff_recs) {
                    // in place where the type allows it (the String keeps its allocation)
                    cur.seqname_mut().clear();
                    cur.seqname_mut().push_str(&m.seqname);
                    cur.source_mut().clone_from(&m.source);
                    cur.feature_type_mut().clone_from(&m.feature);
                    *cur.start_mut() = m.start;
                    *cur.end_mut() = m.end;
                    cur.score_mut().clear();
                    cur.score_mut().push_str(&m.score);
                    *cur.strand_mut() = m.strand.clone();
                    *cur.phase_mut() = r.phase().clone();
                    // the clone keeps the hasher and the table layout, hence the iteration order
                    *cur.attributes_mut() = r.attributes().clone();
                    wr.write(&cur).map_err(|e| e.to_string())?;
                }
                return Ok(());
            }
            for (j, r) in wl.gff_recs.iter().enumerate() {
                // every other record goes through Clone first (the clone keeps hasher and layout)
                if j % 2 == 1 {
                    wr.write(&r.clone()).map_err(|e| e.to_string())?;
                } else {
                    wr.write(r).map_err(|e| e.to_string())?;
                }
            }
        }
    }
    Ok(())
}

fn producer_phase(w: &W, wl: &Workload, io: IoCfg) -> Result<Vec<u8>, Violation> {
    let plain = Rc::new(RefCell::new(Vec::new()));
    if let Err(e) = produce(wl, PlainSink(plain.clone())) {
        return fail("C13.a-sink", format!("writer returned an error for a valid record list although its sink accepts every byte: {}", e));
    }
    let reference = plain.borrow().clone();
    w.set_budget(8 * reference.len() as u64 + 1000);
    let sink = SimWrite::new(w, io, "sink");
    let bytes = sink.sink.clone();
    let res = produce(wl, sink);
    w.set_budget(u64::MAX);
    w.clause("C13.a-sink");
    if let Err(e) = res {
        return fail("C13.a-sink", format!("writer returned an error although the sink only ever short-writes or is interrupted: {}", e));
    }
    let got = bytes.borrow().clone();
    if got != reference {
        return fail(
            "C13.a-sink",
            format!("bytes that reached the sink ({}) differ from what the same writer produces into a Vec ({}): sink={:?} expected={:?}", got.len(), reference.len(), show(&got), show(&reference)),
        );
    }
    if got.contains(&b'"') {
        w.probe("quoted_csv_field");
    }
    Ok(got)
}

/// Split the written image into lines (every '\n' ends a record: fields never contain '\n').
fn lines_of(img: &[u8]) -> Vec<Vec<u8>> {
    let mut v = vec![];
    let mut cur = vec![];
    for &b in img {
        cur.push(b);
        if b == b'\n' {
            v.push(std::mem::take(&mut cur));
        }
    }
    if !cur.is_empty() {
        v.push(cur);
    }
    v
}

const COMMENT_CHARS: [char; 12] = ['c', ' ', '\t', '#', '1', '"', ',', ';', '=', 'é', '.', '\''];

fn draw_faults(w: &W) -> (IoCfg, IoCfg, bool) {
    let faults_on = w.chance(3, 4);
    let eintr_on = faults_on && w.chance(1, 3);
    let wio = if faults_on { IoCfg::draw(w, eintr_on) } else { IoCfg::CLEAN };
    let rio = if faults_on { IoCfg::draw(w, eintr_on) } else { IoCfg::CLEAN };
    (wio, rio, eintr_on)
}

fn compare_item_bed(i: usize, r: &bed::Record, wl: &Workload) -> Result<(), (&'static str, String)> {
    let m = &wl.bed[i];
    let got = BedModel::from_record(r, wl.k);
    let wrote = &wl.bed_recs[i];
    // the typed accessors are judged against the model (columns 4, 5, 6), not against the same
    // accessor applied to the written record
    let exp_name = m.aux.first().map(|s| s.as_str());
    let exp_score = m.aux.get(1).map(|s| s.as_str());
    if got != *m || r.name() != exp_name || r.score() != exp_score || !strand_matches(r.strand(), m.aux.get(2).map(|s| s.as_str())) || r != wrote {
        return Err((
            "C13.a-bed",
            format!(
                "record {}: read {} (name() = {:?}, score() = {:?}, strand() = {}) but wrote {}",
                i,
                got.json(),
                r.name(),
                r.score(),
                strand_sym(r.strand()),
                m.json()
            ),
        ));
    }
    Ok(())
}

fn strand_sym(s: Option<bio_types::strand::Strand>) -> &'static str {
    use bio_types::strand::Strand;
    match s {
        None => "none",
        Some(Strand::Forward) => "+",
        Some(Strand::Reverse) => "-",
        Some(Strand::Unknown) => ".",
    }
}

/// "+" and "-" must come back as forward / reverse; anything else as "no strand" (None, or the
/// explicit unknown strand — both say the same).
fn strand_matches(got: Option<bio_types::strand::Strand>, column: Option<&str>) -> bool {
    match column {
        Some("+") => strand_sym(got) == "+",
        Some("-") => strand_sym(got) == "-",
        _ => matches!(strand_sym(got), "none" | "."),
    }
}

/// The round-trip oracle over the item list (strict, or relaxed for a surfaced EINTR).
fn judge_roundtrip<T>(
    w: &W,
    items: &[Item<T>],
    n: usize,
    eintr_on: bool,
    cmp: &dyn Fn(usize, &T) -> Result<(), (&'static str, String)>,
    count_clause: &'static str,
) -> Verdict {
    let mut ok = 0usize;
    for it in items {
        match it {
            Item::Ok(r) => {
                if ok >= n {
                    return fail(count_clause, format!("read more records ({}+) than were written ({})", ok + 1, n));
                }
                if let Err((c, m)) = cmp(ok, r) {
                    return fail(c, m);
                }
                ok += 1;
            }
            Item::Err { eintr, text } => {
                if eintr_on && *eintr && w.eintr_total.get() > 0 {
                    // legal: the csv reader surfaces Interrupted. Whatever came before was checked
                    // to be a correct prefix; the loss is not silent because this item is an Err.
                    w.probe("eintr_surfaced_by_reader");
                    return Ok(());
                }
                return fail(count_clause, format!("reader reported an error on a well-formed file after {} records: {}", ok, text));
            }
        }
    }
    if ok != n {
        return fail(count_clause, format!("wrote {} records, read {} and no error", n, ok));
    }
    Ok(())
}

fn roundtrip(w: &W, fmt: Fmt) -> Verdict {
    // 1 run in 12: fields may contain tabs and line feeds (then no comment lines are inserted,
    // because the image can no longer be split into record lines by the harness)
    w.wild.set(w.chance(1, 12));
    let wl = gen_workload(w, fmt)?;
    w.wild.set(false);
    let mut wl = wl;
    // Known finding K2: a record whose first column starts with '#' is written as a comment line
    // and silently lost on read. Generated on purpose in 1 round-trip run of 30, judged under its
    // own clause (see below), never mixed into the other scenarios.
    let wild = match fmt {
        Fmt::Bed => wl.bed.iter().any(|b| b.chrom.contains(['\t', '\n']) || b.aux.iter().any(|a| a.contains(['\t', '\n']))),
        Fmt::Gff(_) => wl.gff.iter().any(|g| [&g.seqname, &g.source, &g.feature, &g.score, &g.strand].iter().any(|f| f.contains(['\t', '\n']))),
    };
    let mut hashed: Vec<usize> = vec![];
    // (never together with tabs / line feeds inside fields: the comment would end at the first
    // embedded line feed and leave a fragment behind, which is a different effect)
    if !wild && wl.len() > 0 && w.chance(1, 30) {
        let i = w.draw(wl.len() as u64) as usize;
        match fmt {
            Fmt::Bed => {
                wl.bed[i].chrom.insert(0, '#');
                let c = wl.bed[i].chrom.clone();
                wl.bed_recs[i].set_chrom(&c);
            }
            Fmt::Gff(_) => {
                wl.gff[i].seqname.insert(0, '#');
                *wl.gff_recs[i].seqname_mut() = wl.gff[i].seqname.clone();
            }
        }
        hashed.push(i);
        w.probe("first_column_starts_with_hash");
        if w.keep_trace {
            w.note("workload", wl.json());
        }
    }
    let kept: Vec<usize> = (0..wl.len()).filter(|i| !hashed.contains(i)).collect();
    let (wio, rio, eintr_on) = draw_faults(w);
    let written = producer_phase(w, &wl, wio)?;
    // storage: identity or comment lines inserted at line boundaries
    let mut img = written.clone();
    let with_comments = !wild && w.chance(1, 3);
    if with_comments {
        let lines = lines_of(&written);
        let mut out = vec![];
        let mut inserted = 0u64;
        for i in 0..=lines.len() {
            let k = w.draw(3);
            for _ in 0..k {
                out.push(b'#');
                if w.chance(1, 4) {
                    // pragmas and directives as real files carry them: still comments to these readers
                    out.extend_from_slice(w.pick(&PRAGMAS).as_bytes());
                    w.probe("pragma_comment_line");
                } else if w.chance(1, 50) {
                    // a comment longer than the reader's buffers
                    let n = crate::gen::magic_size(w, 15);
                    out.extend(std::iter::repeat(*w.pick(b"c#\t \"")).take(n));
                    w.probe("comment_line_of_magic_length");
                } else {
                    out.extend_from_slice(string_from(w, &COMMENT_CHARS, 0, 10).as_bytes());
                }
                if w.chance(1, 6) {
                    // a comment typed on another platform
                    out.push(b'\r');
                }
                out.push(b'\n');
                inserted += 1;
            }
            if i < lines.len() {
                out.extend_from_slice(&lines[i]);
            }
        }
        if inserted > 0 {
            w.fired("comment_lines");
            w.sig_mix(0x300 + inserted);
        }
        img = out;
    }
    // NOTE: the final newline is never stripped here. A file without it is the written file
    // truncated by one byte, and for truncations the property only asks for "an error rather than
    // a panic" (an unterminated trailing comment line, for instance, comes back as one Err item
    // from csv-core); that case belongs to the cut scenarios, not to the round trip.
    let data = Rc::new(img);
    if w.keep_trace {
        w.note("writer_io", wio.json());
        w.note("reader_io", rio.json());
        w.note("stored_image", json!(show(&data)));
    }
    let clause_count: &'static str = match fmt {
        Fmt::Bed => "C13.a-bed",
        Fmt::Gff(_) => "C13.b-gff-fields",
    };
    // "parsed back" also means through any method of the Records iterators, not only next():
    // 1 clean round trip in 8 gets an extra pass through count(), last() or nth()
    if hashed.is_empty() && !eintr_on && wl.len() > 0 && w.chance(1, 8) {
        w.probe("records_iterator_driven_through_methods");
        let io = IoCfg::draw(w, false);
        let style = w.draw(3);
        let k = w.draw(wl.len() as u64) as usize;
        let src = SimRead::new(w, data.clone(), io, "src");
        w.set_budget(8 * data.len() as u64 + 1000);
        let verdict: Result<(), (&'static str, String)> = match fmt {
            Fmt::Bed => {
                let mut rd = bed::Reader::new(src);
                let mut it = rd.records();
                match style {
                    0 => {
                        let n = it.count();
                        if n == wl.len() { Ok(()) } else { Err(("C13.a-bed", format!("bed Records.count() = {}, {} records were written", n, wl.len()))) }
                    }
                    1 => match it.last() {
                        Some(Ok(r)) => compare_item_bed(wl.len() - 1, &r, &wl),
                        other => Err(("C13.a-bed", format!("bed Records.last() = {:?}", other.map(|x| x.map(|_| ()).map_err(|e| e.to_string())))))
                    },
                    _ => match it.nth(k) {
                        Some(Ok(r)) => compare_item_bed(k, &r, &wl),
                        other => Err(("C13.a-bed", format!("bed Records.nth({}) = {:?}", k, other.map(|x| x.map(|_| ()).map_err(|e| e.to_string())))))
                    },
                }
            }
            Fmt::Gff(d) => {
                let mut rd = gff::Reader::new(src, d.ty());
                let mut it = rd.records();
                match style {
                    0 => {
                        let n = it.count();
                        if n == wl.len() { Ok(()) } else { Err(("C13.b-gff-fields", format!("gff Records.count() = {}, {} records were written", n, wl.len()))) }
                    }
                    1 => match it.last() {
                        Some(Ok(r)) => gff_compare(&r, &wl.gff[wl.len() - 1], &wl.gff_recs[wl.len() - 1]),
                        other => Err(("C13.b-gff-fields", format!("gff Records.last() = {:?}", other.map(|x| x.map(|_| ()).map_err(|e| e.to_string())))))
                    },
                    _ => match it.nth(k) {
                        Some(Ok(r)) => gff_compare(&r, &wl.gff[k], &wl.gff_recs[k]),
                        other => Err(("C13.b-gff-fields", format!("gff Records.nth({}) = {:?}", k, other.map(|x| x.map(|_| ()).map_err(|e| e.to_string())))))
                    },
                }
            }
        };
        w.set_budget(u64::MAX);
        if let Err((c, m)) = verdict {
            return fail(c, format!("second pass through an Iterator method other than next(): {}", m));
        }
    }
    if with_comments {
        // judged by the ordinary round-trip clauses on an image that contains comment lines
        w.probe("roundtrip_with_comment_lines");
    }
    match fmt {
        Fmt::Bed => {
            w.clause("C13.a-bed");
            let (items, ended, cuts) = read_bed(w, &data, rio);
            probes_from_cuts(w, &data, &cuts);
            if !ended {
                return fail("C13.f-livelock", format!("iterator yielded {} items for a {}-byte file without ending", items.len(), data.len()));
            }
            // csv quotes the field if it also contains a quote or CR: then it is not a comment
            let v = judge_roundtrip(w, &items, wl.len(), eintr_on, &|i, r| compare_item_bed(i, r, &wl), clause_count);
            // K2: only if the complete list did NOT come back (a library that starts to protect
            // such a field is simply correct) and the field needs no csv quoting
            if v.is_err() && !hashed.is_empty() && !wl.bed[hashed[0]].chrom.contains(['"', '\r', '\n', '\t']) {
                return judge_k2(w, judge_roundtrip(w, &items, kept.len(), eintr_on, &|i, r| compare_item_bed(kept[i], r, &wl), clause_count), &wl.bed[hashed[0]].chrom);
            }
            relabel_comments(v, with_comments)
        }
        Fmt::Gff(d) => {
            w.clause("C13.b-gff-fields");
            w.clause("C13.c-attributes");
            let (items, ended, cuts) = read_gff(w, &data, rio, d);
            probes_from_cuts(w, &data, &cuts);
            if !ended {
                return fail("C13.f-livelock", format!("iterator yielded {} items for a {}-byte file without ending", items.len(), data.len()));
            }
            let v = judge_roundtrip(w, &items, wl.len(), eintr_on, &|i, r| gff_compare(r, &wl.gff[i], &wl.gff_recs[i]), clause_count);
            if v.is_err() && !hashed.is_empty() && !wl.gff[hashed[0]].seqname.contains(['"', '\r', '\n', '\t']) {
                return judge_k2(
                    w,
                    judge_roundtrip(w, &items, kept.len(), eintr_on, &|i, r| gff_compare(r, &wl.gff[kept[i]], &wl.gff_recs[kept[i]]), clause_count),
                    &wl.gff[hashed[0]].seqname,
                );
            }
            relabel_comments(v, with_comments)
        }
    }
}

const K2_CLAUSE: &str = "C13.k2-first-column-hash";

/// `v` is the verdict of comparing what was read with the written list *minus* the record whose
/// first column starts with '#'. If that comparison holds, the only thing wrong is the silent loss
/// of that record: known finding K2, under its own clause. Anything else keeps its regular clause.
fn judge_k2(w: &W, v: Verdict, first_col: &str) -> Verdict {
    match v {
        Ok(()) if w.probes.borrow().get("eintr_surfaced_by_reader") > 0 => Ok(()),
        Ok(()) => {
            w.clause(K2_CLAUSE);
            fail(
                K2_CLAUSE,
                format!(
                    "record whose first column starts with '#' silently lost: first column {:?} was written unquoted, read as a comment line; every other record is identical",
                    first_col
                ),
            )
        }
        Err(e) => Err(e),
    }
}

/// A failure that only shows with comment lines present is reported under the comment clause
/// only if the same workload would be judged — we cannot know that here, so keep the clause the
/// comparison chose; the decoded section shows the comments. (Identity function, kept for clarity.)
fn relabel_comments(v: Verdict, _with_comments: bool) -> Verdict {
    v
}

fn probes_from_cuts(w: &W, data: &[u8], cuts: &[usize]) {
    for &c in cuts {
        if c > 0 && c < data.len() && data[c - 1] != b'\n' {
            w.probe("csv_field_or_line_split_across_reads");
            break;
        }
    }
}

// ---------------------------------------------------------------------------------------------
// targeted damage

// "0x10" is deliberately absent: the csv crate documents hexadecimal integers as valid numbers.
// blank-padded numbers (" 7") are absent too: a parser that trims blanks would be lenient, not wrong.
const BAD_NUMBERS: [&str; 25] = [
    "abc", "", "-5", "1.5", "184467440737095516160", "-0", "0x", "18446744073709551616", "1e3", "1_000", "٣", "1,5", "１２", "~", "None",
    // notations other tools and databases use around coordinates: partial-feature marks, ranges,
    // thousands separators, units, placeholders
    "<5", ">90", "5..10", "5-10", "1,000", "5kb", ".", "NA", "NaN", "inf",
];
const BAD_PHASES: [&str; 8] = ["3", "7", "255", "256", "-1", "x", "", "0.0"];

fn damage(w: &W, fmt: Fmt) -> Verdict {
    let wl = gen_workload(w, fmt)?;
    let n = wl.len();
    if n == 0 {
        return Ok(());
    }
    let written = producer_phase(w, &wl, IoCfg::CLEAN)?;
    let mut lines = lines_of(&written);
    // The injector needs "one '\n'-terminated line per record, in order". A writer is free to lay
    // its output out differently (header or comment lines, CRLF): comment lines are set aside, a
    // CRLF terminator is kept, and if the layout still is not line-per-record the scenario is
    // skipped — the layout is not something the property constrains.
    let head: Vec<Vec<u8>> = lines.iter().take_while(|l| l.starts_with(b"#")).cloned().collect();
    lines.drain(..head.len());
    if lines.len() != n || lines.iter().any(|l| l.starts_with(b"#") || !l.ends_with(b"\n")) {
        w.probe("writer_layout_not_line_per_record");
        return Ok(());
    }
    let j = w.draw(n as u64) as usize;
    // fields of line j, split on tabs outside quotes (fields never contain tabs in this workload)
    let line = lines[j].clone();
    let term_len = if line.ends_with(b"\r\n") { 2 } else { 1 };
    let terminator = line[line.len() - term_len..].to_vec();
    let body = &line[..line.len() - term_len];
    let mut fields: Vec<Vec<u8>> = body.split(|b| *b == b'\t').map(|f| f.to_vec()).collect();
    let nf = fields.len();
    let kind = match fmt {
        // BED: 0,1 bad number; 2,3 column count (lines other than the first only); 9 = the line is
        // cut down to one or two columns, which is malformed on ANY line (BED has at least three)
        Fmt::Bed => {
            if w.chance(1, 6) {
                9
            } else if w.chance(1, 6) {
                8
            } else {
                w.draw(if j > 0 { 4 } else { 2 })
            }
        }
        Fmt::Gff(_) => w.draw(5),
    };
    let mut judge_only_damaged_line = false;
    let what: String;
    match (fmt, kind) {
        (Fmt::Bed, 8) => {
            // both coordinates unreadable, as in a title line ("chrom start end")
            let a = *w.pick(&["start", "chromStart", "abc", "", "x1"]);
            let b = *w.pick(&["end", "chromEnd", "def", "", "y2"]);
            fields[1] = a.as_bytes().to_vec();
            fields[2] = b.as_bytes().to_vec();
            what = format!("line {}: both coordinate columns replaced by {:?} and {:?}", j, a, b);
            w.probe("damage_bad_number");
            w.probe("damage_both_coordinates");
        }
        (Fmt::Bed, 9) => {
            let mut keep = 1 + w.draw(2) as usize;
            if keep == 1 && fields[0].is_empty() {
                // an empty chrom alone would leave a blank line, which is not a record at all
                keep = 2;
            }
            fields.truncate(keep);
            what = format!("line {}: cut down to {} column(s)", j, keep);
            w.probe("damage_bed_fewer_than_three_columns");
            // on the first line this also redefines the column count of the file (inherent to
            // BED), so only the damaged line itself is judged then
            judge_only_damaged_line = j == 0;
        }
        (Fmt::Bed, 0) | (Fmt::Bed, 1) => {
            let col = 1 + kind as usize;
            let bad = *w.pick(&BAD_NUMBERS);
            fields[col] = bad.as_bytes().to_vec();
            what = format!("line {}: coordinate column {} replaced by {:?}", j, col, bad);
            w.probe("damage_bad_number");
        }
        (Fmt::Gff(_), 0) | (Fmt::Gff(_), 1) => {
            let col = 3 + kind as usize;
            let bad = *w.pick(&BAD_NUMBERS);
            fields[col] = bad.as_bytes().to_vec();
            what = format!("line {}: coordinate column {} replaced by {:?}", j, col, bad);
            w.probe("damage_bad_number");
        }
        (Fmt::Gff(_), 2) => {
            let bad = *w.pick(&BAD_PHASES);
            fields[7] = bad.as_bytes().to_vec();
            what = format!("line {}: phase replaced by {:?}", j, bad);
            w.probe("damage_bad_phase");
            if bad == "3" || bad == "7" || bad == "255" {
                w.probe("damage_phase_in_u8_range");
            }
        }
        (_, k) if (fmt == Fmt::Bed && k == 2) || (fmt != Fmt::Bed && k == 3) => {
            // delete one tab: merge two columns. Only unquoted neighbours are merged: gluing a
            // csv-quoted field onto an unquoted one would make its quotes literal and expose a
            // '\r' inside it as a record terminator, which is a different damage (more lines).
            let cand: Vec<usize> = (0..nf - 1)
                .filter(|&a| !fields[a].contains(&b'"') && !fields[a + 1].contains(&b'"'))
                // merging an empty first column with a second one that starts with '#' would
                // turn the line into a comment: again a different damage
                .filter(|&a| a != 0 || !(fields[0].is_empty() && fields[1].starts_with(b"#")))
                .collect();
            if cand.is_empty() {
                fields.push(b"extra".to_vec());
                what = format!("line {}: one column appended", j);
                w.probe("damage_column_added");
            } else {
                let at = *w.pick(&cand);
                let right = fields.remove(at + 1);
                fields[at].extend_from_slice(&right);
                what = format!("line {}: tab after column {} deleted", j, at);
                w.probe("damage_column_missing");
            }
        }
        _ if w.chance(1, 3) => {
            // an empty column inserted in front or in the middle (a doubled tab)
            let at = w.draw(nf as u64) as usize;
            fields.insert(at, vec![]);
            what = format!("line {}: an empty column inserted before column {}", j, at);
            w.probe("damage_column_added");
            w.probe("damage_empty_column_inserted");
        }
        _ => {
            // a non-empty extra column, or just a trailing tab (an empty extra column)
            if w.chance(1, 2) {
                fields.push(b"extra".to_vec());
                what = format!("line {}: one column appended", j);
            } else {
                fields.push(vec![]);
                what = format!("line {}: a trailing tab (an empty column) appended", j);
                w.probe("damage_trailing_tab");
            }
            w.probe("damage_column_added");
        }
    }
    let mut nl = fields.join(&b'\t');
    nl.extend_from_slice(&terminator);
    lines[j] = nl;
    w.fired("targeted_damage");
    w.sig_mix(0x400 + kind);
    // comment lines around the records (items still map one-to-one to record lines)
    let with_comments = w.chance(1, 4);
    let mut img: Vec<u8> = head.concat();
    for (i, l) in lines.iter().enumerate() {
        if with_comments && w.chance(1, 2) {
            img.push(b'#');
            img.extend_from_slice(string_from(w, &COMMENT_CHARS, 0, 6).as_bytes());
            img.push(b'\n');
            if i == j {
                w.probe("damaged_line_follows_comment");
            }
        }
        img.extend_from_slice(l);
    }
    if j + 1 == n && w.chance(1, 3) {
        // only when the damaged line is the last one: it must be an error with or without its
        // terminator, and no other line loses anything
        for _ in 0..term_len {
            img.pop();
        }
        w.fired("final_newline_stripped");
        w.probe("damaged_last_line_without_newline");
    }
    if img.starts_with(b"\xef\xbb\xbf") {
        // The damage has moved a U+FEFF to the very start of the file (an empty first column merged
        // with a second column that begins with one). A file that starts with a byte order mark is
        // outside the domain — the mark is an encoding signature, csv drops it — and the injector
        // must not be the one to make such a file. (csv-core 0.1 moreover reads the whole file as
        // empty when the first chunk it is given is exactly those three bytes: DESIGN §10.4 item 8.)
        w.probe("damage_would_put_a_byte_order_mark_first");
        return Ok(());
    }
    let data = Rc::new(img);
    let rio = if w.chance(1, 2) { IoCfg::draw(w, false) } else { IoCfg::CLEAN };
    if w.keep_trace {
        w.note("damage", json!(what));
        w.note("stored_image", json!(show(&data)));
        w.note("reader_io", rio.json());
    }
    w.clause("C13.e-malformed");
    let judge = |idx: usize, is_ok: bool, cmp: Result<(), (&'static str, String)>, err_text: &str| -> Verdict {
        if idx == j {
            if is_ok {
                return fail(
                    "C13.e-malformed",
                    format!("{}; the reader returned Ok for that line instead of an error (silently coerced or accepted)", what),
                );
            }
            Ok(())
        } else {
            if judge_only_damaged_line {
                return Ok(());
            }
            if !is_ok {
                return fail("C13.e-malformed", format!("{}; but the undamaged line {} was reported as an error: {}", what, idx, err_text));
            }
            match cmp {
                Ok(()) => Ok(()),
                Err((_, m)) => fail("C13.e-malformed", format!("{}; the undamaged line {} was read back wrong: {}", what, idx, m)),
            }
        }
    };
    match fmt {
        Fmt::Bed => {
            let (items, ended, _) = read_bed(w, &data, rio);
            if !ended {
                return fail("C13.f-livelock", format!("iterator yielded {} items without ending", items.len()));
            }
            // one item per line — or the iterator ends right after reporting the damaged line
            // (whether iteration goes on after an error is not something the property says)
            let stopped_after_error = items.len() == j + 1 && matches!(items.last(), Some(Item::Err { .. }));
            if items.len() != n && !stopped_after_error {
                return fail("C13.e-malformed", format!("{}; {} lines produced {} items", what, n, items.len()));
            }
            if stopped_after_error && items.len() != n {
                w.probe("reader_stopped_after_reported_error");
            }
            for (i, it) in items.iter().enumerate() {
                match it {
                    Item::Ok(r) => judge(i, true, if i == j { Ok(()) } else { compare_item_bed(i, r, &wl) }, "")?,
                    Item::Err { text, .. } => judge(i, false, Ok(()), text)?,
                }
            }
        }
        Fmt::Gff(d) => {
            let (items, ended, _) = read_gff(w, &data, rio, d);
            if !ended {
                return fail("C13.f-livelock", format!("iterator yielded {} items without ending", items.len()));
            }
            // one item per line — or the iterator ends right after reporting the damaged line
            // (whether iteration goes on after an error is not something the property says)
            let stopped_after_error = items.len() == j + 1 && matches!(items.last(), Some(Item::Err { .. }));
            if items.len() != n && !stopped_after_error {
                return fail("C13.e-malformed", format!("{}; {} lines produced {} items", what, n, items.len()));
            }
            if stopped_after_error && items.len() != n {
                w.probe("reader_stopped_after_reported_error");
            }
            for (i, it) in items.iter().enumerate() {
                match it {
                    Item::Ok(r) => judge(i, true, if i == j { Ok(()) } else { gff_compare(r, &wl.gff[i], &wl.gff_recs[i]) }, "")?,
                    Item::Err { text, .. } => judge(i, false, Ok(()), text)?,
                }
            }
        }
    }
    // "reported as errors for that record" also through Iterator methods other than next()
    if w.chance(1, 3) {
        methods_pass(w, fmt, &data)?;
    }
    Ok(())
}

/// The same stored file through two fresh readers: one pulled with next() only (the baseline), one
/// driven through count(), last(), nth(), skip() or step_by(). The Iterator contract ties each of
/// them to the next() sequence of *one* iterator (a reader may legally end an iterator after its
/// first error and carry on with the next one), so the items must agree: Ok items equal, Err items
/// at the same places. No EINTR here (csv ends after surfacing it); fragmentation is drawn.
fn methods_pass(w: &W, fmt: Fmt, data: &Rc<Vec<u8>>) -> Verdict {
    w.probe("damaged_file_through_iterator_methods");
    fn same<T: PartialEq, E>(a: Option<&Item<T>>, b: Option<&Result<T, E>>) -> bool {
        match (a, b) {
            (None, None) => true,
            (Some(Item::Ok(x)), Some(Ok(y))) => x == y,
            (Some(Item::Err { .. }), Some(Err(_))) => true,
            _ => false,
        }
    }
    // the Records iterator itself is driven — an adaptor in between (map, by_ref) would route
    // last()/nth()/count() through its own default implementations
    fn drive<T: PartialEq + std::fmt::Debug, E: std::fmt::Display, I: Iterator<Item = Result<T, E>>>(w: &W, base: &[Item<T>], it: I) -> Result<(), String> {
        let n = base.len();
        let show = |x: Option<&Result<T, E>>| match x {
            None => "None".to_string(),
            Some(Ok(r)) => format!("Some(Ok({:?}))", r),
            Some(Err(e)) => format!("Some(Err({}))", e),
        };
        let showb = |x: Option<&Item<T>>| match x {
            None => "None".to_string(),
            Some(Item::Ok(r)) => format!("Some(Ok({:?}))", r),
            Some(Item::Err { text, .. }) => format!("Some(Err({:?}))", text),
        };
        match w.draw(5) {
            0 => {
                let c = it.count();
                if c != n {
                    return Err(format!("count() = {}, next() alone yields {} items", c, n));
                }
            }
            1 => {
                let l = it.last();
                if !same(base.last(), l.as_ref()) {
                    return Err(format!("last() = {}, the last item of next() alone is {}", show(l.as_ref()), showb(base.last())));
                }
            }
            2 => {
                let k = w.draw(n as u64 + 2) as usize;
                let mut it = it;
                let x = it.nth(k);
                if !same(base.get(k), x.as_ref()) {
                    return Err(format!("nth({}) = {}, item {} of next() alone is {}", k, show(x.as_ref()), k, showb(base.get(k))));
                }
                let y = it.next();
                if !same(base.get(k + 1), y.as_ref()) {
                    return Err(format!("next() after nth({}) = {}, item {} of next() alone is {}", k, show(y.as_ref()), k + 1, showb(base.get(k + 1))));
                }
            }
            3 => {
                let k = w.draw(n as u64 + 2) as usize;
                let got: Vec<Result<T, E>> = it.skip(k).take(n + 2).collect();
                let want = &base[k.min(n)..];
                if got.len() != want.len() || got.iter().zip(want).any(|(g, b)| !same(Some(b), Some(g))) {
                    return Err(format!("skip({}) yields {} items, next() alone yields {} after the first {}; or they differ", k, got.len(), want.len(), k));
                }
            }
            _ => {
                let step = 2 + w.draw(2) as usize;
                let got: Vec<Result<T, E>> = it.step_by(step).take(n + 2).collect();
                let want: Vec<&Item<T>> = base.iter().step_by(step).collect();
                if got.len() != want.len() || got.iter().zip(&want).any(|(g, b)| !same(Some(*b), Some(g))) {
                    return Err(format!("step_by({}) yields {} items where next() alone gives {}; or they differ", step, got.len(), want.len()));
                }
            }
        }
        Ok(())
    }
    let io = IoCfg::draw(w, false);
    let res = match fmt {
        Fmt::Bed => {
            let (base, ended, _) = read_bed_opts(w, data, IoCfg::CLEAN, false);
            if !ended {
                return Ok(());
            }
            let src = SimRead::new(w, data.clone(), io, "src");
            w.set_budget(16 * data.len() as u64 + 1000);
            let mut rd = bed::Reader::new(src);
            let r = drive(w, &base, rd.records());
            w.set_budget(u64::MAX);
            r
        }
        Fmt::Gff(d) => {
            let (base, ended, _) = read_gff_opts(w, data, IoCfg::CLEAN, d, false);
            if !ended {
                return Ok(());
            }
            let src = SimRead::new(w, data.clone(), io, "src");
            w.set_budget(16 * data.len() as u64 + 1000);
            let mut rd = gff::Reader::new(src, d.ty());
            let r = drive(w, &base, rd.records());
            w.set_budget(u64::MAX);
            r
        }
    };
    match res {
        Ok(()) => Ok(()),
        Err(m) => fail("C13.e-malformed", format!("the damaged file through an Iterator method other than next(): {}", m)),
    }
}

// ---------------------------------------------------------------------------------------------
// garbage and cuts

fn garbage(w: &W, fmt: Fmt) -> Verdict {
    let wl = gen_workload(w, fmt)?;
    let written = producer_phase(w, &wl, IoCfg::CLEAN)?;
    let mut img = written.clone();
    let mut cut: Option<usize> = None;
    if w.chance(1, 2) {
        let c = match w.draw(3) {
            0 => w.draw(img.len() as u64 + 1) as usize,
            1 => img.len().saturating_sub(1 + w.draw(2) as usize),
            _ => {
                let ends: Vec<usize> = (0..img.len()).filter(|&i| img[i] == b'\n').collect();
                if ends.is_empty() {
                    0
                } else {
                    (*w.pick(&ends) + w.draw(3) as usize).min(img.len())
                }
            }
        };
        img.truncate(c);
        cut = Some(c);
        w.fired("cut");
        w.sig_mix(0x500 + if written.is_empty() { 0 } else { (c * 16 / (written.len() + 1)) as u64 });
    } else {
        let k = 1 + w.draw(4);
        for _ in 0..k {
            let b = match w.draw(4) {
                0 => *w.pick(&[b'"', b'\t', b'\n', b'\r', b'#', b',', b';', b'=']),
                1 => 0xff,
                _ => w.draw(256) as u8,
            };
            if img.is_empty() {
                img.push(b);
                continue;
            }
            let pos = w.draw(img.len() as u64) as usize;
            match w.draw(3) {
                0 => img[pos] = b,
                1 => img.insert(pos, b),
                _ => {
                    img.remove(pos);
                }
            }
        }
        if w.chance(1, 30) {
            // a long run of one structural byte: thousands of empty lines, tabs, quotes, ';' or '='
            let n = match w.draw(8) {
                0 => 1usize << 20,
                1 | 2 => 4096 + w.draw(8192) as usize,
                _ => 70_000,
            };
            let b = *w.pick(b"\n\t\"#;= ,\r");
            let at = match w.draw(3) {
                0 => 0,
                1 => img.len(),
                _ => w.draw(img.len() as u64 + 1) as usize,
            };
            img.splice(at..at, std::iter::repeat(b).take(n));
            w.probe("garbage_with_long_run_of_one_byte");
        }
        w.fired("corrupt");
    }
    if !img.is_empty() {
        w.probe("workload_nonempty");
    }
    let rio = if w.chance(1, 2) { IoCfg::draw(w, false) } else { IoCfg::CLEAN };
    let data = Rc::new(img);
    if w.keep_trace {
        w.note("cut_at", json!(cut));
        w.note("stored_image", json!(show(&data)));
        w.note("reader_io", rio.json());
    }
    w.clause("C13.f-nopanic");
    w.clause("C13.f-livelock");
    // lines wholly before the cut
    // (only meaningful if the writer lays its output out as one line per record after optional
    // leading comment lines; otherwise only the no-panic / no-livelock clauses are judged)
    let all_lines = lines_of(&written);
    let head = all_lines.iter().take_while(|l| l.starts_with(b"#")).count();
    let line_per_record = all_lines.len() - head == wl.len() && all_lines[head..].iter().all(|l| !l.starts_with(b"#") && l.ends_with(b"\n"));
    let whole = match cut {
        Some(c) if line_per_record => written[..c].iter().filter(|b| **b == b'\n').count().saturating_sub(head),
        _ => 0,
    };
    match fmt {
        Fmt::Bed => {
            let (items, ended, _) = read_bed(w, &data, rio);
            if !ended {
                return fail("C13.f-livelock", format!("iterator yielded {} items for a {}-byte file without ending", items.len(), data.len()));
            }
            if cut.is_some() {
                for i in 0..whole {
                    match items.get(i) {
                        Some(Item::Ok(r)) => {
                            if let Err((_, m)) = compare_item_bed(i, r, &wl) {
                                return fail("C13.f-cut-prefix", format!("file cut at byte {:?}: line {} lies wholly before the cut but was read back wrong: {}", cut, i, m));
                            }
                        }
                        Some(Item::Err { text, .. }) => return fail("C13.f-cut-prefix", format!("file cut at byte {:?}: line {} lies wholly before the cut but was reported as an error: {}", cut, i, text)),
                        None => return fail("C13.f-cut-prefix", format!("file cut at byte {:?}: line {} lies wholly before the cut but was not returned", cut, i)),
                    }
                }
            }
        }
        Fmt::Gff(d) => {
            let (items, ended, _) = read_gff(w, &data, rio, d);
            if !ended {
                return fail("C13.f-livelock", format!("iterator yielded {} items for a {}-byte file without ending", items.len(), data.len()));
            }
            if cut.is_some() {
                for i in 0..whole {
                    match items.get(i) {
                        Some(Item::Ok(r)) => {
                            if let Err((_, m)) = gff_compare(r, &wl.gff[i], &wl.gff_recs[i]) {
                                return fail("C13.f-cut-prefix", format!("file cut at byte {:?}: line {} lies wholly before the cut but was read back wrong: {}", cut, i, m));
                            }
                        }
                        Some(Item::Err { text, .. }) => return fail("C13.f-cut-prefix", format!("file cut at byte {:?}: line {} lies wholly before the cut but was reported as an error: {}", cut, i, text)),
                        None => return fail("C13.f-cut-prefix", format!("file cut at byte {:?}: line {} lies wholly before the cut but was not returned", cut, i)),
                    }
                }
            }
        }
    }
    Ok(())
}

/// Every partition of one tiny BED file into read() chunks and of the writer's output into
/// accepted write() chunks (files of up to 11, thorough: 12 bytes).
fn bed_partitions(w: &W) -> Verdict {
    let limit = if crate::world::thorough() { 12 } else { 11 };
    let k = w.draw(2) as usize;
    let mut models: Vec<BedModel> = vec![];
    for _ in 0..2 {
        models.push(BedModel {
            chrom: w.pick(&["a", "", "\"", "é", ","]).to_string(),
            start: w.draw(11),
            end: *w.pick(&[0u64, 7, 10, 255]),
            aux: (0..k).map(|_| w.pick(&["n", "", "\r", "\""]).to_string()).collect(),
        });
    }
    let build = |ms: &[BedModel]| -> Workload {
        Workload {
            fmt: Fmt::Bed,
            bed_recs: ms.iter().map(|b| b.to_record(0)).collect(),
            bed: ms.to_vec(),
            k,
            gff: vec![],
            gff_recs: vec![],
            reuse: false,
        }
    };
    let mut wl = build(&models);
    let mut written = producer_phase(w, &wl, IoCfg::CLEAN)?;
    while written.len() > limit && !models.is_empty() {
        models.pop();
        wl = build(&models);
        written = producer_phase(w, &wl, IoCfg::CLEAN)?;
    }
    if models.is_empty() || written.len() < 2 {
        return Ok(());
    }
    w.probe("workload_nonempty");
    w.probe("all_partitions_sweep");
    w.fired("all_read_partitions");
    w.fired("all_write_partitions");
    let n = written.len();
    if w.keep_trace {
        w.note("workload", wl.json());
        w.note("stored_image", json!(show(&written)));
        w.note("sweep", json!(format!("all {} partitions of {} bytes, write side then read side", 1u64 << (n - 1), n)));
    }
    let data = Rc::new(written);
    for mask in 0..(1u64 << (n - 1)) {
        let io = IoCfg { chunk: crate::world::Chunk::Mask(mask), eintr_pm: 0, eio_pm: 0 };
        if let Err(mut v) = producer_phase(w, &wl, io) {
            v.message = format!("write partition mask {:#x}: {}", mask, v.message);
            return Err(v);
        }
        w.clause("C13.a-bed");
        let (items, ended, _) = read_bed(w, &data, io);
        if !ended {
            return fail("C13.f-livelock", format!("read partition mask {:#x}: iterator does not end", mask));
        }
        if let Err(mut v) = judge_roundtrip(w, &items, wl.len(), false, &|i, r| compare_item_bed(i, r, &wl), "C13.a-bed") {
            v.message = format!("read partition mask {:#x} (bit i = a read ends at offset i+1) of {:?}: {}", mask, show(&data), v.message);
            return Err(v);
        }
    }
    Ok(())
}

fn pick_dialect(w: &W) -> Dialect {
    [Dialect::Gff3, Dialect::Gff2, Dialect::Gtf2][w.draw(3) as usize]
}

fn bed_roundtrip(w: &W) -> Verdict {
    roundtrip(w, Fmt::Bed)
}
fn gff_roundtrip(w: &W) -> Verdict {
    let d = pick_dialect(w);
    roundtrip(w, Fmt::Gff(d))
}
fn bed_damage(w: &W) -> Verdict {
    damage(w, Fmt::Bed)
}
fn gff_damage(w: &W) -> Verdict {
    let d = pick_dialect(w);
    damage(w, Fmt::Gff(d))
}
fn bed_garbage(w: &W) -> Verdict {
    garbage(w, Fmt::Bed)
}
fn gff_garbage(w: &W) -> Verdict {
    let d = pick_dialect(w);
    garbage(w, Fmt::Gff(d))
}

pub fn property() -> Property {
    Property {
        id: "C13",
        scenarios: vec![
            Scenario { name: "bed-roundtrip", weight: 12, run: bed_roundtrip },
            Scenario { name: "gff-roundtrip", weight: 20, run: gff_roundtrip },
            Scenario { name: "bed-damage", weight: 8, run: bed_damage },
            Scenario { name: "gff-damage", weight: 12, run: gff_damage },
            Scenario { name: "bed-garbage", weight: 4, run: bed_garbage },
            Scenario { name: "gff-garbage", weight: 8, run: gff_garbage },
            Scenario { name: "bed-partitions", weight: 1, run: bed_partitions },
        ],
        panic_clause: "C13.f-nopanic",
        livelock_clause: "C13.f-livelock",
        rule: "one run = one seeded execution of writer → simulated file → reader: record list (BED: common number k of auxiliary columns; GFF: dialect, attribute multimap), the hash iteration order of every GFF attribute map (owned by rejection sampling over RandomState), write/read fragmentation regime, EINTR, and one storage event (identity, comment lines, one targeted field damage, byte corruption, cut) all drawn from one choice stream. Non-trivial = at least one record AND at least one fault, permuted hash order or storage event actually fired. Distinct = distinct schedule signature: hash of scenario, storage event and the sequence of (call kind, requested-size class, outcome class) of every endpoint call. bed-partitions plays every partition of one tiny BED file into read() chunks and of the writer's output into write() chunks; one sweep counts as one run.",
        real: &["bio::io::bed::{Writer, Reader, Records, Record}", "bio::io::gff::{Writer, Reader, Records, Record, Phase, GffType}", "csv / csv-core (reader and writer)", "regex (attribute column)", "multimap::MultiMap over std RandomState"],
        stubs: &["the OS file/pipe under the writer (SimWrite: short writes, EINTR)", "the OS file/pipe under the reader (SimRead: short reads, EINTR)", "the editor that inserts comment lines", "media fault / bad edit (targeted field damage, byte corruption, cut)"],
        assumptions: &[
            "domain: a first column starting with '#' is generated only for known finding K2 (1 round-trip run in 30, own clause); tabs and line feeds inside fixed columns only in 1 round-trip run in 12; GFF attribute keys/values are non-empty, avoid the dialect's delimiters (GFF3: '=' ';' ',' ; GFF2/GTF2: blank ';' NUL), tabs, line breaks and quote characters; GFF3 keys do not start with a blank",
            "BED column-count damage is only applied to lines other than the first (BED has no fixed column count: the first line defines it); GFF column-count damage is applied to any line (a GFF record always has nine columns)",
            "under injected EINTR the csv reader may surface Err(Interrupted) and stop: accepted only if EINTR fired, the Ok items are a correct prefix, and the loss is signalled by that Err item",
            "random byte corruption is only checked for panics and livelock (a flipped byte can be a quote that legitimately swallows lines)",
        ],
        expected_probes: &[
            "multi_valued_attribute", "key_order_differs_from_insertion", "quoted_csv_field", "csv_field_or_line_split_across_reads",
            "damage_bad_number", "damage_bad_phase", "damage_phase_in_u8_range", "damage_column_missing", "damage_column_added", "damage_both_coordinates", "damage_trailing_tab", "damage_empty_column_inserted", "damage_bed_fewer_than_three_columns", "eintr_surfaced_by_reader", "many_records_regime", "records_iterator_driven_through_methods", "related_fields_or_records", "all_partitions_sweep", "first_column_starts_with_hash", "field_with_tab_or_line_feed", "many_values_record", "damaged_line_follows_comment", "damaged_last_line_without_newline",
        ],
        quick_runs: 300_000,
        thorough_runs: 20_000_000,
    }
}
