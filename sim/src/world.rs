//! Per-run world: choice stream, I/O event counter ("simulated time"), I/O trace, counters of
//! faults that actually fired, probes, progress budgets, and the simulated endpoints
//! (SimRead / SimBufRead / SimSeekRead / SimWrite) through which all library I/O passes.

use crate::choice::Choices;
use std::cell::{Cell, RefCell};
use std::io::{self, BufRead, Read, Seek, SeekFrom, Write};
use std::rc::Rc;

/// Panic payload used by endpoints when a progress budget is exhausted (classified as livelock,
/// not as a library panic).
pub struct BudgetExceeded;

/// Panic payload used when the code under test breaks the contract of a std::io trait it was
/// handed (e.g. `BufRead::consume` beyond what `fill_buf` exposed): a library fault, not a harness one.
pub struct ContractViolation(pub String);

#[derive(Clone, Copy, Debug)]
pub struct IoEv {
    pub ev: u64,
    pub ep: &'static str,
    pub call: &'static str,
    pub want: u64,
    /// bytes transferred, or -1 = EINTR, -2 = EIO
    pub got: i64,
    pub pos: u64,
}

#[derive(Default)]
pub struct Counters {
    pub items: Vec<(&'static str, u64)>,
}

impl Counters {
    pub fn add(&mut self, name: &'static str, n: u64) {
        for it in self.items.iter_mut() {
            if it.0 == name {
                it.1 += n;
                return;
            }
        }
        self.items.push((name, n));
    }
    pub fn get(&self, name: &str) -> u64 {
        self.items
            .iter()
            .find(|it| it.0 == name)
            .map(|it| it.1)
            .unwrap_or(0)
    }
}

pub struct World {
    pub ch: RefCell<Choices>,
    pub ev: Cell<u64>,
    pub bytes: Cell<u64>,
    pub trace: RefCell<Vec<IoEv>>,
    pub fired: RefCell<Counters>,
    pub probes: RefCell<Counters>,
    pub clauses: RefCell<Counters>,
    /// remaining endpoint calls before the run is declared livelocked
    pub budget: Cell<u64>,
    pub sig: Cell<u64>,
    pub eintr_total: Cell<u64>,
    pub eio_total: Cell<u64>,
    /// free-form notes for the decoded section of replay files / samples
    pub notes: RefCell<Vec<(String, serde_json::Value)>>,
    pub keep_trace: bool,
    /// scenario-local switch: generators may use characters that need csv quoting across lines
    pub wild: Cell<bool>,
    /// bytes the generators may still spend on deliberately large items (see `take_big`)
    pub big_left: Cell<usize>,
}

pub type W = Rc<World>;

/// Tier of the whole process (set once in main, recorded in replay files): the thorough tier
/// shifts probability mass towards the expensive regimes and widens the sweeps.
pub static THOROUGH: std::sync::atomic::AtomicBool = std::sync::atomic::AtomicBool::new(false);
pub fn thorough() -> bool {
    THOROUGH.load(std::sync::atomic::Ordering::Relaxed)
}

const MAX_TRACE: usize = 4000;

impl World {
    pub fn new(ch: Choices, keep_trace: bool) -> W {
        Rc::new(World {
            ch: RefCell::new(ch),
            ev: Cell::new(0),
            bytes: Cell::new(0),
            trace: RefCell::new(Vec::new()),
            fired: RefCell::new(Counters::default()),
            probes: RefCell::new(Counters::default()),
            clauses: RefCell::new(Counters::default()),
            budget: Cell::new(u64::MAX),
            sig: Cell::new(0xcbf2_9ce4_8422_2325),
            eintr_total: Cell::new(0),
            eio_total: Cell::new(0),
            notes: RefCell::new(Vec::new()),
            keep_trace,
            wild: Cell::new(false),
            big_left: Cell::new(64 << 20),
        })
    }

    pub fn draw(&self, bound: u64) -> u64 {
        self.ch.borrow_mut().draw(bound)
    }
    pub fn chance(&self, num: u64, den: u64) -> bool {
        self.ch.borrow_mut().chance(num, den)
    }
    pub fn range(&self, lo: u64, hi: u64) -> u64 {
        self.ch.borrow_mut().range(lo, hi)
    }
    pub fn small(&self, lo: u64, hi: u64) -> u64 {
        self.ch.borrow_mut().small(lo, hi)
    }
    pub fn pick<'a, T>(&self, xs: &'a [T]) -> &'a T {
        self.ch.borrow_mut().pick(xs)
    }
    /// "one more element?" — list lengths are drawn as a run of continue-flags (0 = stop), so
    /// that deleting one element's span of choices together with its flag is a valid shrink.
    pub fn more(&self, have: u64, max: u64) -> bool {
        have < max && self.chance(2, 3)
    }
    pub fn more_p(&self, have: u64, max: u64, num: u64, den: u64) -> bool {
        have < max && self.chance(num, den)
    }

    pub fn fired(&self, kind: &'static str) {
        self.fired.borrow_mut().add(kind, 1);
    }
    /// The generators' budget for deliberately large items (a megabyte field, an 8 MiB sequence,
    /// a key with 70 000 values): 64 MiB per run. The sizes are drawn item by item, and a replay
    /// list edited by the minimiser can switch every one of them on at once — thousands of records
    /// with several MiB each — which is no longer a test of the library but of the machine's
    /// memory. Returns false once the budget is spent; the caller then generates a small item.
    pub fn take_big(&self, n: usize) -> bool {
        let left = self.big_left.get();
        if n <= left {
            self.big_left.set(left - n);
            true
        } else {
            false
        }
    }

    pub fn probe(&self, name: &'static str) {
        self.probes.borrow_mut().add(name, 1);
    }
    pub fn clause(&self, name: &'static str) {
        self.clauses.borrow_mut().add(name, 1);
    }
    pub fn note(&self, key: &str, v: serde_json::Value) {
        self.notes.borrow_mut().push((key.to_string(), v));
    }

    pub fn sig_mix(&self, x: u64) {
        let mut h = self.sig.get();
        h ^= x;
        h = h.wrapping_mul(0x0000_0100_0000_01b3);
        self.sig.set(h);
    }

    pub fn set_budget(&self, n: u64) {
        self.budget.set(n);
    }

    fn size_class(n: u64) -> u64 {
        match n {
            0 => 0,
            1 => 1,
            2..=3 => 2,
            4..=15 => 3,
            16..=255 => 4,
            _ => 5,
        }
    }

    /// Record one endpoint call. Every call is one tick of simulated time.
    fn event(&self, ep: &'static str, call: &'static str, want: u64, got: i64, pos: u64) {
        let ev = self.ev.get() + 1;
        self.ev.set(ev);
        if got > 0 {
            self.bytes.set(self.bytes.get() + got as u64);
        }
        let outcome = if got < 0 {
            (10 - got) as u64
        } else if got as u64 == want {
            6
        } else {
            Self::size_class(got as u64)
        };
        self.sig_mix(
            (call.as_bytes()[0] as u64) << 16
                | (call.len() as u64) << 8
                | Self::size_class(want) << 4
                | outcome,
        );
        if self.keep_trace {
            let mut t = self.trace.borrow_mut();
            if t.len() < MAX_TRACE {
                t.push(IoEv {
                    ev,
                    ep,
                    call,
                    want,
                    got,
                    pos,
                });
            }
        }
        let b = self.budget.get();
        if b == 0 {
            std::panic::panic_any(BudgetExceeded);
        }
        if b != u64::MAX {
            self.budget.set(b - 1);
        }
    }
}

#[derive(Clone, Copy, Debug, PartialEq, Eq)]
pub enum Chunk {
    /// every call transfers as much as it can
    Full,
    /// every call transfers min(k, possible)
    Fixed(usize),
    /// every call transfers a drawn amount in 1..=min(k, possible); draw 0 = the most possible
    Random(usize),
    /// a scripted partition of a stream of at most 64 bytes: bit i set = some read ends exactly
    /// at offset i+1 (used to enumerate *all* partitions of a tiny file)
    Mask(u64),
}

impl Chunk {
    pub fn name(&self) -> String {
        match self {
            Chunk::Full => "full".into(),
            Chunk::Fixed(k) => format!("fixed{}", k),
            Chunk::Mask(m) => format!("partition-mask {:#x}", m),
            Chunk::Random(k) => {
                if *k == usize::MAX {
                    "random".into()
                } else {
                    format!("random<={}", k)
                }
            }
        }
    }
    fn decide(&self, w: &World, possible: usize, pos: usize) -> usize {
        debug_assert!(possible >= 1);
        match *self {
            Chunk::Mask(m) => {
                // next scripted boundary strictly after `pos`
                let mut b = pos + 1;
                while b < 64 && (m >> (b - 1)) & 1 == 0 {
                    b += 1;
                }
                if b >= 64 {
                    possible
                } else {
                    possible.min(b - pos)
                }
            }
            Chunk::Full => possible,
            Chunk::Fixed(k) => possible.min(k),
            Chunk::Random(k) => {
                let cap = possible.min(k);
                cap - w.draw(cap as u64) as usize
            }
        }
    }
}

pub const CHUNKS: [Chunk; 11] = [
    Chunk::Full,
    Chunk::Fixed(1),
    Chunk::Random(usize::MAX),
    Chunk::Fixed(2),
    Chunk::Fixed(3),
    Chunk::Random(4),
    Chunk::Fixed(7),
    Chunk::Random(64),
    Chunk::Fixed(64),
    Chunk::Fixed(4096),
    Chunk::Random(600),
];

#[derive(Clone, Copy, Debug)]
pub struct IoCfg {
    pub chunk: Chunk,
    /// probability (per mille) that a call is interrupted; at most 3 in a row
    pub eintr_pm: u64,
    /// probability (per mille) of a hard error (EIO); C12 only
    pub eio_pm: u64,
}

impl IoCfg {
    pub const CLEAN: IoCfg = IoCfg {
        chunk: Chunk::Full,
        eintr_pm: 0,
        eio_pm: 0,
    };
    pub fn draw(w: &World, allow_eintr: bool) -> IoCfg {
        let chunk = *w.pick(&CHUNKS);
        let eintr_pm = if allow_eintr {
            *w.pick(&[0u64, 0, 50, 200, 500])
        } else {
            0
        };
        IoCfg {
            chunk,
            eintr_pm,
            eio_pm: 0,
        }
    }
    pub fn json(&self) -> serde_json::Value {
        serde_json::json!({"chunk": self.chunk.name(), "eintr_pm": self.eintr_pm, "eio_pm": self.eio_pm})
    }
}

fn eintr() -> io::Error {
    io::Error::new(io::ErrorKind::Interrupted, "sim: EINTR")
}
fn eio() -> io::Error {
    io::Error::new(io::ErrorKind::Other, "sim: EIO")
}

/// Shared injection logic: returns Some(err) if this call is to fail.
struct Inject {
    streak: u32,
}

impl Inject {
    fn new() -> Self {
        Inject { streak: 0 }
    }
    fn roll(&mut self, w: &World, cfg: &IoCfg, kind: &'static str) -> Option<(io::Error, i64)> {
        if cfg.eio_pm > 0 && w.chance(cfg.eio_pm, 1000) {
            w.fired("hard_error");
            w.eio_total.set(w.eio_total.get() + 1);
            self.streak = 0;
            return Some((eio(), -2));
        }
        if cfg.eintr_pm > 0 && self.streak < 3 && w.chance(cfg.eintr_pm, 1000) {
            self.streak += 1;
            w.fired(kind);
            w.eintr_total.set(w.eintr_total.get() + 1);
            // an interrupted call is legal and must be retried: it does not eat into the budget
            let b = w.budget.get();
            if b != u64::MAX {
                w.budget.set(b + 1);
            }
            return Some((eintr(), -1));
        }
        self.streak = 0;
        None
    }
}

/// `Read` endpoint over an immutable byte image.
pub struct SimRead {
    w: W,
    data: Rc<Vec<u8>>,
    pos: usize,
    cfg: IoCfg,
    inj: Inject,
    name: &'static str,
    /// chunk boundaries (absolute offsets at which a read ended before EOF), for probes
    pub cuts: Rc<RefCell<Vec<usize>>>,
}

impl SimRead {
    pub fn new(w: &W, data: Rc<Vec<u8>>, cfg: IoCfg, name: &'static str) -> Self {
        SimRead {
            w: w.clone(),
            data,
            pos: 0,
            cfg,
            inj: Inject::new(),
            name,
            cuts: Rc::new(RefCell::new(Vec::new())),
        }
    }
}

impl Read for SimRead {
    fn read(&mut self, buf: &mut [u8]) -> io::Result<usize> {
        let rem = self.data.len() - self.pos;
        if buf.is_empty() || rem == 0 {
            self.w
                .event(self.name, "read", buf.len() as u64, 0, self.pos as u64);
            return Ok(0);
        }
        if let Some((e, code)) = self.inj.roll(&self.w, &self.cfg, "eintr_read") {
            self.w
                .event(self.name, "read", buf.len() as u64, code, self.pos as u64);
            return Err(e);
        }
        let possible = buf.len().min(rem);
        let n = self.cfg.chunk.decide(&self.w, possible, self.pos);
        buf[..n].copy_from_slice(&self.data[self.pos..self.pos + n]);
        if n < possible {
            self.w.fired("short_read");
        }
        self.w
            .event(self.name, "read", buf.len() as u64, n as i64, self.pos as u64);
        self.pos += n;
        if self.pos < self.data.len() {
            self.cuts.borrow_mut().push(self.pos);
        }
        Ok(n)
    }
}

/// `BufRead` endpoint: decides what each `fill_buf` exposes.
pub struct SimBufRead {
    w: W,
    data: Rc<Vec<u8>>,
    pos: usize,
    win_end: usize,
    cfg: IoCfg,
    inj: Inject,
    name: &'static str,
    pub cuts: Rc<RefCell<Vec<usize>>>,
}

impl SimBufRead {
    pub fn new(w: &W, data: Rc<Vec<u8>>, cfg: IoCfg, name: &'static str) -> Self {
        SimBufRead {
            w: w.clone(),
            data,
            pos: 0,
            win_end: 0,
            cfg,
            inj: Inject::new(),
            name,
            cuts: Rc::new(RefCell::new(Vec::new())),
        }
    }
}

impl BufRead for SimBufRead {
    fn fill_buf(&mut self) -> io::Result<&[u8]> {
        if self.pos == self.win_end {
            let rem = self.data.len() - self.pos;
            if rem == 0 {
                self.w.event(self.name, "fill_buf", 0, 0, self.pos as u64);
                return Ok(&[]);
            }
            if let Some((e, code)) = self.inj.roll(&self.w, &self.cfg, "eintr_read") {
                self.w.event(self.name, "fill_buf", 0, code, self.pos as u64);
                return Err(e);
            }
            let n = self.cfg.chunk.decide(&self.w, rem, self.pos);
            if n < rem {
                self.w.fired("short_fill");
            }
            self.win_end = self.pos + n;
            if self.win_end < self.data.len() {
                self.cuts.borrow_mut().push(self.win_end);
            }
            self.w
                .event(self.name, "fill_buf", rem as u64, n as i64, self.pos as u64);
        }
        Ok(&self.data[self.pos..self.win_end])
    }
    fn consume(&mut self, amt: usize) {
        if self.pos + amt > self.win_end {
            std::panic::panic_any(ContractViolation(format!(
                "BufRead::consume({}) although the last fill_buf() exposed only {} bytes",
                amt,
                self.win_end - self.pos
            )));
        }
        self.pos += amt;
    }
}

impl Read for SimBufRead {
    fn read(&mut self, buf: &mut [u8]) -> io::Result<usize> {
        let n = {
            let src = self.fill_buf()?;
            let n = src.len().min(buf.len());
            buf[..n].copy_from_slice(&src[..n]);
            n
        };
        self.consume(n);
        Ok(n)
    }
}

/// A FASTA file that exists only as a formula: one record of up to 2^40 bases whose base at
/// position i is a function of i, laid out with a fixed line width. Lets the seekable endpoint
/// serve file offsets beyond 4 GiB without storing anything.
pub struct Virtual {
    pub header: Vec<u8>,
    pub line_bases: u64,
    pub term: &'static [u8],
    pub seq_len: u64,
    pub a: u64,
    pub b: u64,
    /// bytes of the file that exist (≤ total_len(): a truncated copy)
    pub visible_len: u64,
}

pub const VBASES: &[u8] = b"ACGTNRYKMSWBDHVacgtn";

impl Virtual {
    pub fn base(&self, i: u64) -> u8 {
        let k = self
            .a
            .wrapping_add(i.wrapping_mul(self.b))
            .wrapping_add(i / 7)
            .wrapping_add(i / 61)
            .wrapping_add(i / 4099)
            .wrapping_add(i >> 31);
        VBASES[(k % VBASES.len() as u64) as usize]
    }
    pub fn line_bytes(&self) -> u64 {
        self.line_bases + self.term.len() as u64
    }
    pub fn total_len(&self) -> u64 {
        let full = self.seq_len / self.line_bases;
        let rem = self.seq_len % self.line_bases;
        self.header.len() as u64 + full * self.line_bytes() + if rem > 0 { rem + self.term.len() as u64 } else { 0 }
    }
    fn byte_at(&self, o: u64) -> u8 {
        let h = self.header.len() as u64;
        if o < h {
            return self.header[o as usize];
        }
        let rel = o - h;
        let line = rel / self.line_bytes();
        let col = rel % self.line_bytes();
        let i = line * self.line_bases + col;
        if col < self.line_bases && i < self.seq_len {
            self.base(i)
        } else if i >= self.seq_len && col < self.line_bases {
            // terminator of the short last line
            let t = (col - self.seq_len % self.line_bases) as usize;
            self.term[t.min(self.term.len() - 1)]
        } else {
            self.term[(col - self.line_bases) as usize]
        }
    }
}

/// `Read + Seek` endpoint (a file).
pub struct SimSeekRead {
    w: W,
    virt: Option<Rc<Virtual>>,
    data: Rc<Vec<u8>>,
    pos: u64,
    pub cfg: Rc<Cell<IoCfg>>,
    inj: Inject,
    name: &'static str,
    pub cuts: Rc<RefCell<Vec<usize>>>,
}

impl SimSeekRead {
    pub fn new(w: &W, data: Rc<Vec<u8>>, cfg: IoCfg, name: &'static str) -> Self {
        SimSeekRead {
            w: w.clone(),
            virt: None,
            data,
            pos: 0,
            cfg: Rc::new(Cell::new(cfg)),
            inj: Inject::new(),
            name,
            cuts: Rc::new(RefCell::new(Vec::new())),
        }
    }
    pub fn new_virtual(w: &W, v: Rc<Virtual>, cfg: IoCfg, name: &'static str) -> Self {
        let mut s = SimSeekRead::new(w, Rc::new(Vec::new()), cfg, name);
        s.virt = Some(v);
        s
    }
    fn len(&self) -> u64 {
        match &self.virt {
            Some(v) => v.visible_len,
            None => self.data.len() as u64,
        }
    }
}

impl Read for SimSeekRead {
    fn read(&mut self, buf: &mut [u8]) -> io::Result<usize> {
        let len = self.len();
        let rem = if self.pos >= len {
            0
        } else {
            (len - self.pos).min(1 << 30) as usize
        };
        if buf.is_empty() || rem == 0 {
            self.w.event(self.name, "read", buf.len() as u64, 0, self.pos);
            return Ok(0);
        }
        let cfg = self.cfg.get();
        if let Some((e, code)) = self.inj.roll(&self.w, &cfg, "eintr_read") {
            self.w
                .event(self.name, "read", buf.len() as u64, code, self.pos);
            return Err(e);
        }
        let possible = buf.len().min(rem);
        let n = cfg.chunk.decide(&self.w, possible, (self.pos.min(1 << 40)) as usize);
        match &self.virt {
            Some(v) => {
                for (k, slot) in buf[..n].iter_mut().enumerate() {
                    *slot = v.byte_at(self.pos + k as u64);
                }
            }
            None => {
                let p = self.pos as usize;
                buf[..n].copy_from_slice(&self.data[p..p + n]);
            }
        }
        if n < possible {
            self.w.fired("short_read");
        }
        self.w
            .event(self.name, "read", buf.len() as u64, n as i64, self.pos);
        self.pos += n as u64;
        if self.virt.is_none() && (self.pos as usize) < self.data.len() {
            // (positions where a read ended, for the reach probes; a bounded sample is enough)
            let mut cuts = self.cuts.borrow_mut();
            if cuts.len() < 1 << 20 {
                cuts.push(self.pos as usize);
            }
        }
        Ok(n)
    }
}

impl Seek for SimSeekRead {
    fn seek(&mut self, from: SeekFrom) -> io::Result<u64> {
        let cfg = self.cfg.get();
        if cfg.eio_pm > 0 && self.w.chance(cfg.eio_pm, 1000) {
            self.w.fired("hard_error_seek");
            self.w.eio_total.set(self.w.eio_total.get() + 1);
            self.w.event(self.name, "seek", 0, -2, self.pos);
            return Err(eio());
        }
        let len = self.len() as i128;
        let target: i128 = match from {
            SeekFrom::Start(p) => p as i128,
            SeekFrom::Current(d) => self.pos as i128 + d as i128,
            SeekFrom::End(d) => len + d as i128,
        };
        if target < 0 || target > u64::MAX as i128 {
            self.w.event(self.name, "seek", 0, -3, self.pos);
            return Err(io::Error::new(
                io::ErrorKind::InvalidInput,
                "sim: seek to a negative or overflowing position",
            ));
        }
        self.pos = target as u64;
        self.w.event(self.name, "seek", 0, 0, self.pos);
        Ok(self.pos)
    }
}

/// `Write` endpoint: decides how much of each `write` is accepted.
pub struct SimWrite {
    w: W,
    pub sink: Rc<RefCell<Vec<u8>>>,
    cfg: IoCfg,
    inj: Inject,
    name: &'static str,
    pub flushes: Rc<Cell<u64>>,
}

impl SimWrite {
    pub fn new(w: &W, cfg: IoCfg, name: &'static str) -> Self {
        SimWrite {
            w: w.clone(),
            sink: Rc::new(RefCell::new(Vec::new())),
            cfg,
            inj: Inject::new(),
            name,
            flushes: Rc::new(Cell::new(0)),
        }
    }
}

impl Write for SimWrite {
    fn write(&mut self, buf: &[u8]) -> io::Result<usize> {
        let pos = self.sink.borrow().len() as u64;
        if buf.is_empty() {
            self.w.event(self.name, "write", 0, 0, pos);
            return Ok(0);
        }
        if let Some((e, code)) = self.inj.roll(&self.w, &self.cfg, "eintr_write") {
            self.w
                .event(self.name, "write", buf.len() as u64, code, pos);
            return Err(e);
        }
        let n = self.cfg.chunk.decide(&self.w, buf.len(), pos as usize);
        if n < buf.len() {
            self.w.fired("short_write");
        }
        self.sink.borrow_mut().extend_from_slice(&buf[..n]);
        self.w
            .event(self.name, "write", buf.len() as u64, n as i64, pos);
        Ok(n)
    }
    fn flush(&mut self) -> io::Result<()> {
        let pos = self.sink.borrow().len() as u64;
        self.flushes.set(self.flushes.get() + 1);
        self.w.event(self.name, "flush", 0, 0, pos);
        Ok(())
    }
}
