//! simio — deterministic simulation with fault injection for rust-bio's I/O layer.
//!
//!   simio run <C11|C12|C13> <quick|thorough> [--runs N] [--threads N] [--seed N] [--root DIR]
//!   simio replay <file>
//!   simio digests <C11|C12|C13> [--runs N] [--threads N] [--seed N]
//!   simio genreplay <C11|C12|C13> [--runs N] [--seed N]
//!
//! Exit codes: 0 held; 1 violation (a `VIOLATION property=<id> replay=<path>` line is printed);
//! 2 harness error.

mod c11;
mod capped;
mod c12;
mod c13;
mod choice;
mod gen;
mod runner;
mod world;

use choice::Choices;
use runner::*;
use serde_json::{json, Value};
use std::sync::OnceLock;

const DEFAULT_SEED: u64 = 20261002;

#[global_allocator]
static ALLOC: capped::Capped = capped::Capped;

static PROPS: OnceLock<Vec<Property>> = OnceLock::new();

fn props() -> &'static Vec<Property> {
    PROPS.get_or_init(|| vec![c11::property(), c12::property(), c13::property()])
}

fn prop(id: &str) -> Option<&'static Property> {
    props().iter().find(|p| p.id == id)
}

struct Args {
    pos: Vec<String>,
    runs: Option<u64>,
    from: u64,
    isolate: bool,
    threads: usize,
    seed: u64,
    root: String,
}

fn parse_args() -> Result<Args, String> {
    let mut a = Args {
        pos: vec![],
        runs: None,
        from: 0,
        isolate: false,
        threads: std::thread::available_parallelism().map(|n| n.get()).unwrap_or(4),
        seed: match std::env::var("VERIF_SEED") {
            Ok(s) if !s.trim().is_empty() => s
                .trim()
                .parse::<u64>()
                .map_err(|_| format!("VERIF_SEED={:?} is not an unsigned integer", s))?,
            _ => DEFAULT_SEED,
        },
        root: "/verif".to_string(),
    };
    let mut it = std::env::args().skip(1);
    while let Some(x) = it.next() {
        match x.as_str() {
            "--runs" => a.runs = Some(it.next().ok_or("--runs N")?.parse().map_err(|_| "--runs N")?),
            "--isolate" => a.isolate = true,
            "--from" => a.from = it.next().ok_or("--from N")?.parse().map_err(|_| "--from N")?,
            "--threads" => a.threads = it.next().ok_or("--threads N")?.parse().map_err(|_| "--threads N")?,
            "--seed" => a.seed = it.next().ok_or("--seed N")?.parse().map_err(|_| "--seed N")?,
            "--root" => a.root = it.next().ok_or("--root DIR")?,
            _ => a.pos.push(x),
        }
    }
    if a.threads == 0 {
        a.threads = 1;
    }
    Ok(a)
}

fn main() {
    install_panic_hook();
    let code = match real_main() {
        Ok(c) => c,
        Err(e) => {
            eprintln!("simio: harness error: {}", e);
            2
        }
    };
    std::process::exit(code);
}

fn real_main() -> Result<i32, String> {
    let a = parse_args()?;
    match a.pos.first().map(|s| s.as_str()) {
        Some("run") => cmd_run(&a),
        Some("replay") => cmd_replay(&a),
        Some("digests") => cmd_digests(&a),
        Some("genreplay") => cmd_genreplay(&a),
        Some("crashfile") => cmd_crashfile(&a),
        Some("plan") => {
            let p = get_prop(&a, 1)?;
            let thorough = a.pos.get(2).map(|s| s.as_str()) == Some("thorough");
            println!("{}", a.runs.unwrap_or(if thorough { p.thorough_runs } else { p.quick_runs }));
            Ok(0)
        }
        _ => Err("usage: simio run|replay|digests|genreplay|crashfile …".into()),
    }
}

fn get_prop(a: &Args, i: usize) -> Result<&'static Property, String> {
    let id = a.pos.get(i).ok_or("property id expected")?;
    prop(id).ok_or_else(|| format!("unknown property {}", id))
}

fn tier_from_env() {
    if std::env::var("VERIF_TIER").ok().as_deref() == Some("thorough") {
        world::THOROUGH.store(true, std::sync::atomic::Ordering::Relaxed);
    }
}

fn cmd_digests(a: &Args) -> Result<i32, String> {
    tier_from_env();
    let p = get_prop(a, 1)?;
    let cfg = BatchCfg {
        seed: a.seed,
        from: a.from,
        runs: a.runs.unwrap_or(20_000),
        threads: a.threads,
        per_run_digests: true,
        hang_secs: 30,
        replay_dir: format!("{}/replays", a.root),
    };
    let out = run_batch(p, &cfg);
    for (r, d) in &out.digests {
        println!("{} {:016x}", r, d);
    }
    Ok(0)
}

/// generate ≡ replay: re-execute each run from its recorded choice log and compare digests.
fn genreplay(p: &'static Property, seed: u64, runs: u64) -> (u64, Vec<u64>) {
    let table = p.table();
    let mut bad = vec![];
    for run in 0..runs {
        let sc = &p.scenarios[table[(run % table.len() as u64) as usize]];
        // same thread on purpose: this compares the simulator with itself, it needs no isolation
        let a = execute_here(p, sc, Choices::generate(run_seed(seed, p, sc, run)), false);
        let b = execute_here(p, sc, Choices::replay(a.choices.clone()), false);
        let c = execute_here(p, sc, Choices::generate(run_seed(seed, p, sc, run)), true);
        if digest(&a) != digest(&b) || digest(&a) != digest(&c) {
            bad.push(run);
        }
    }
    (runs, bad)
}

fn cmd_genreplay(a: &Args) -> Result<i32, String> {
    tier_from_env();
    let p = get_prop(a, 1)?;
    let (n, bad) = genreplay(p, a.seed, a.runs.unwrap_or(2000));
    println!("genreplay {}: {} runs, {} mismatches {:?}", p.id, n, bad.len(), &bad[..bad.len().min(10)]);
    Ok(if bad.is_empty() { 0 } else { 2 })
}

/// `simio crashfile <PROP> <tier> --from <run>`: write a replay file for a run that makes the
/// whole process die (abort, stack overflow, allocation failure) — found by `check`'s bisection.
fn cmd_crashfile(a: &Args) -> Result<i32, String> {
    let p = get_prop(a, 1)?;
    let tier = a.pos.get(2).map(|s| s.as_str()).unwrap_or("quick");
    let table = p.table();
    let sc = &p.scenarios[table[(a.from % table.len() as u64) as usize]];
    let dir = format!("{}/replays/{}", a.root, p.id);
    std::fs::create_dir_all(&dir).map_err(|e| format!("{}: {}", dir, e))?;
    let path = format!("{}/{}-s{}-r{}.json", dir, p.panic_clause.replace('.', "_"), a.seed, a.from);
    let v = json!({
        "property": p.id, "scenario": sc.name, "clause": p.panic_clause, "seed": a.seed, "run": a.from,
        "choices": Value::Null, "tier": tier,
        "message": "the process running this simulated run terminated abnormally (abort / stack overflow / allocation failure) instead of finishing or unwinding",
    });
    std::fs::write(&path, serde_json::to_string_pretty(&v).unwrap()).map_err(|e| format!("{}: {}", path, e))?;
    println!("VIOLATION property={} replay={}", p.id, path);
    Ok(1)
}

fn cmd_replay(a: &Args) -> Result<i32, String> {
    let path = a.pos.get(1).ok_or("replay <file>")?;
    let s = std::fs::read_to_string(path).map_err(|e| format!("{}: {}", path, e))?;
    let v: Value = serde_json::from_str(&s).map_err(|e| format!("{}: {}", path, e))?;
    let pid = v["property"].as_str().ok_or("replay file: no property")?;
    let p = prop(pid).ok_or_else(|| format!("unknown property {}", pid))?;
    world::THOROUGH.store(v["tier"].as_str() == Some("thorough"), std::sync::atomic::Ordering::Relaxed);
    // same hang backstop as in batch mode
    let pid_s = pid.to_string();
    let path_s = path.clone();
    std::thread::spawn(move || {
        std::thread::sleep(std::time::Duration::from_secs(30));
        println!("replay: run did not finish within 30 s of wall-clock (hang reproduced)");
        println!("VIOLATION property={} replay={}", pid_s, path_s);
        std::process::exit(1);
    });
    let (same, clause, message) = replay(p, &v)?;
    let recorded_msg = v["message"].as_str().unwrap_or("");
    if same {
        println!("replay: reproduced clause {}", clause);
        println!("replay: message: {}", message);
        if !recorded_msg.is_empty() && recorded_msg != message {
            println!("replay: note: recorded message differs: {}", recorded_msg);
        }
        println!("VIOLATION property={} replay={}", p.id, path);
        Ok(1)
    } else {
        println!(
            "replay: did NOT reproduce (recorded clause {}, now: {} {})",
            v["clause"].as_str().unwrap_or("?"),
            clause,
            message
        );
        Ok(0)
    }
}

fn cmd_run(a: &Args) -> Result<i32, String> {
    let p = get_prop(a, 1)?;
    let tier = match a.pos.get(2).map(|s| s.as_str()) {
        Some("quick") => "quick",
        Some("thorough") => "thorough",
        None => match std::env::var("VERIF_TIER").ok().as_deref() {
            Some("thorough") => "thorough",
            _ => "quick",
        },
        Some(x) => return Err(format!("unknown tier {}", x)),
    };
    world::THOROUGH.store(tier == "thorough", std::sync::atomic::Ordering::Relaxed);
    let runs = a.runs.unwrap_or(if tier == "quick" { p.quick_runs } else { p.thorough_runs });
    let replay_dir = format!("{}/replays", a.root);
    let cfg = BatchCfg {
        seed: a.seed,
        from: a.from,
        runs,
        threads: a.threads,
        per_run_digests: false,
        hang_secs: 30,
        replay_dir: replay_dir.clone(),
    };
    let known = Known::load(&format!("{}/known_findings.json", a.root))?;
    println!("simio: property={} tier={} seed={} runs={} threads={}", p.id, tier, a.seed, runs, a.threads);
    let out = run_batch(p, &cfg);
    let agg = &out.agg;

    if !agg.harness_bugs.is_empty() {
        for h in &agg.harness_bugs {
            eprintln!("simio: {}", h);
        }
        return Err("the harness itself panicked; nothing this run reports is to be believed".into());
    }

    if a.isolate {
        // crash isolation (driven by /verif/check): only the exit status of this range matters
        return Ok(if agg.violations.is_empty() { 0 } else { 1 });
    }
    // determinism self-check, in-process part (the cross-process part is `check selftest`)
    let det_n = if tier == "quick" { 1500 } else { 6000 };
    let (det_runs, det_bad) = genreplay(p, a.seed, det_n.min(runs));
    let det_msg: Option<String> = if det_bad.is_empty() {
        None
    } else {
        Some(format!(
            "generate/replay digests differ for runs {:?}: some nondeterminism the simulator does not own reached these runs",
            &det_bad[..det_bad.len().min(10)]
        ))
    };

    // violations: minimise the smallest failing run of each clause, write replay files
    let table = p.table();
    let mut violation_lines = vec![];
    let mut unstable_lines: Vec<String> = vec![];
    let mut known_lines = vec![];
    let mut violations_json = vec![];
    for (clause, (run, sci, count)) in &agg.violations {
        let sc = &p.scenarios[*sci];
        debug_assert_eq!(table[(*run % table.len() as u64) as usize], *sci);
        let first = execute(p, sc, Choices::generate(run_seed(a.seed, p, sc, *run)), false);
        let alone = matches!(&first.verdict, Err(v) if v.clause == *clause);
        let mut unstable = false;
        let (m, mut file) = if alone {
            let orig_len = first.choices.len();
            let first_events = first.events;
            let m = minimise(p, sc, first.choices, clause, first_events);
            let mut file = replay_file_json(p, sc, a.seed, *run, &m.choices, &m.violation, orig_len, m.execs);
            // Does the minimised list fail every time? Code under test with entropy of its own (a
            // fresh hash map iterated, an address printed) may fail a clause only now and then; such
            // a replay file is still written, but it is listed after the stable ones and says so.
            let again = (0..4).filter(|_| matches!(&execute(p, sc, Choices::replay(m.choices.clone()), false).verdict, Err(v) if v.clause == *clause)).count();
            if again < 4 {
                unstable = true;
                file["stability"] = json!(format!("this list violated the clause in {} of 4 further executions: the code under test does not behave deterministically here, and a replay may or may not reproduce", again));
            }
            (m, file)
        } else {
            // The run does not fail on its own in a fresh thread: the code under test carries state
            // from earlier runs of the same block (thread-local scratch space, a cache). Replay the
            // block prefix in one fresh thread and shrink it to the runs that are needed.
            let block_start = a.from + ((*run - a.from) / BLOCK) * BLOCK;
            let fails_after = |prelude: &[u64]| -> Option<Violation> {
                let o = execute_after(p, sc, Choices::generate(run_seed(a.seed, p, sc, *run)), false, a.seed, prelude);
                match o.verdict {
                    Err(v) if v.clause == *clause => Some(v),
                    _ => None,
                }
            };
            let mut prelude: Vec<u64> = (block_start..*run).collect();
            let (prelude, violation) = match fails_after(&prelude) {
                Some(mut v) => {
                    let mut i = 0;
                    while i < prelude.len() {
                        let mut cand = prelude.clone();
                        cand.remove(i);
                        if let Some(v2) = fails_after(&cand) {
                            prelude = cand;
                            v = v2;
                        } else {
                            i += 1;
                        }
                    }
                    v.message = format!(
                        "{} [fails only after run(s) {:?} have been executed on the same thread: the code under test carries state from one independent use to the next]",
                        v.message, prelude
                    );
                    (prelude, v)
                }
                None => (
                    vec![],
                    Violation {
                        clause: clause.clone(),
                        message: format!(
                            "clause violated in {} run(s) of the batch (first: run {}), but neither the run alone nor the preceding runs of its block reproduce it in a fresh thread: the code under test carries state across independent uses that the simulator cannot isolate (process-global?)",
                            count, run
                        ),
                    },
                ),
            };
            let file = json!({
                "property": p.id, "scenario": sc.name, "clause": clause, "seed": a.seed, "run": run,
                "choices": Value::Null, "prelude_runs": prelude, "message": violation.message,
            });
            (Minimised { choices: vec![], violation, execs: 0 }, file)
        };
        file["tier"] = json!(tier);
        let dir = format!("{}/{}", replay_dir, p.id);
        std::fs::create_dir_all(&dir).map_err(|e| format!("{}: {}", dir, e))?;
        let path = format!("{}/{}-s{}-r{}.json", dir, clause.replace('.', "_"), a.seed, run);
        std::fs::write(&path, serde_json::to_string_pretty(&file).unwrap()).map_err(|e| format!("{}: {}", path, e))?;
        let kf = known.matches(p.id, clause, &m.violation.message, &file["decoded"]);
        violations_json.push(json!({"clause": clause, "failing_runs": count, "first_run": run, "scenario": sc.name,
            "message": m.violation.message, "replay": path, "known_finding": kf.is_some()}));
        match kf {
            Some(what) => known_lines.push(format!("KNOWN-FINDING: property={} clause={} {} (replay={}, {} failing runs)", p.id, clause, what, path, count)),
            None => {
                println!("violation: clause={} scenario={} run={} failing_runs={} :: {}", clause, sc.name, run, count, m.violation.message);
                if unstable {
                    println!("simio: note: the replay file of clause {} is not stable (the code under test is nondeterministic for it); it is listed last", clause);
                    unstable_lines.push(format!("VIOLATION property={} replay={}", p.id, path));
                } else {
                    violation_lines.push(format!("VIOLATION property={} replay={}", p.id, path));
                }
            }
        }
    }

    // samples: smallest non-trivial run of each scenario, re-executed with tracing
    let mut samples = vec![];
    for (sci, run) in &agg.sample_idx {
        let sc = &p.scenarios[*sci];
        let o = execute(p, sc, Choices::generate(run_seed(a.seed, p, sc, *run)), true);
        samples.push(json!({"scenario": sc.name, "run": run, "choices": o.choices.len(),
            "verdict": match &o.verdict { Ok(()) => json!("held"), Err(v) => json!({"clause": v.clause, "message": v.message}) },
            "decoded": decoded_json(&o)}));
    }

    let zero_probes: Vec<&str> = p
        .expected_probes
        .iter()
        .copied()
        .filter(|n| agg.probes.get(*n).copied().unwrap_or(0) == 0)
        .collect();
    for z in &zero_probes {
        println!("simio: WARNING probe never hit: {}", z);
    }

    violation_lines.append(&mut unstable_lines);
    let wall = out.wall_s;
    let unlisted = violation_lines.len();
    let evidence = json!({
        "property_id": p.id,
        "tier": tier,
        "seed": a.seed,
        "level": "exploration",
        "wall_s": wall,
        "violations": unlisted,
        "coverage": {
            "evaluations": agg.runs,
            "distinct_nontrivial": agg.sigs.len(),
            "nontrivial_runs": agg.nontrivial_runs,
            "rule": p.rule,
            "samples": samples,
            "runs_per_scenario": agg.per_scenario,
            "runs_per_hour": if wall > 0.0 { (agg.runs as f64 / wall * 3600.0) as u64 } else { 0 },
            "simulated_time": {"unit": "I/O events (endpoint calls); the code has no clock or timer", "io_events": agg.events, "bytes_moved": agg.bytes},
            "faults_fired_total": agg.fired,
            "faults_fired_runs": agg.fired_runs,
            "probes_hit": agg.probes,
            "probes_never_hit": zero_probes,
            "clause_evaluations": agg.clauses,
            "violations_detail": violations_json,
            "known_findings_reported": known_lines.len(),
            "determinism": {"generate_vs_replay_vs_traced_runs_compared": det_runs, "mismatches": det_bad.len(), "batch_digest": format!("{:016x}/{:016x}", agg.digest_xor, agg.digest_sum), "note": "cross-process 1-vs-16-worker comparison: /verif/check selftest"},
            "components_real": p.real,
            "components_stub": p.stubs,
            "threads": a.threads,
            "exhaustive": false,
        },
        "assumptions": p.assumptions,
    });
    let evdir = format!("{}/evidence", a.root);
    std::fs::create_dir_all(&evdir).map_err(|e| format!("{}: {}", evdir, e))?;
    let evpath = format!("{}/{}.json", evdir, p.id);
    std::fs::write(&evpath, serde_json::to_string_pretty(&evidence).unwrap()).map_err(|e| format!("{}: {}", evpath, e))?;

    println!(
        "simio: {} runs in {:.1}s ({} runs/h), {} I/O events, {} distinct non-trivial schedules, {} clauses violated ({} of them listed known findings)",
        agg.runs,
        wall,
        if wall > 0.0 { (agg.runs as f64 / wall * 3600.0) as u64 } else { 0 },
        agg.events,
        agg.sigs.len(),
        agg.violations.len(),
        known_lines.len()
    );
    for l in &known_lines {
        println!("{}", l);
    }
    for l in &violation_lines {
        println!("{}", l);
    }
    if let Some(msg) = det_msg {
        if violation_lines.is_empty() {
            // nothing else to report: the simulator itself cannot be trusted
            return Err(msg);
        }
        // With unlisted violations present the likelier cause is the code under test (e.g. a change
        // that iterates a fresh hash map): the violations are the useful answer; say so.
        println!("simio: WARNING {} — violations are reported anyway; a replay may not reproduce exactly", msg);
    }
    Ok(if violation_lines.is_empty() { 0 } else { 1 })
}
