//! Workload generators driven by the choice stream. Index 0 of every alphabet is the simplest symbol.

use crate::world::World;

pub fn string_from(w: &World, alphabet: &[char], lo: u64, hi: u64) -> String {
    let n = w.small(lo, hi);
    let mut s = String::new();
    for _ in 0..n {
        s.push(*w.pick(alphabet));
    }
    s
}

pub fn bytes_from(w: &World, alphabet: &[u8], n: u64) -> Vec<u8> {
    (0..n).map(|_| *w.pick(alphabet)).collect()
}

/// Lossy, printable rendering of bytes for JSON notes.
pub fn show(bytes: &[u8]) -> String {
    let mut s = String::new();
    let lim = 400;
    for &b in bytes.iter().take(lim) {
        match b {
            b'\n' => s.push_str("\\n"),
            b'\r' => s.push_str("\\r"),
            b'\t' => s.push_str("\\t"),
            b'\\' => s.push_str("\\\\"),
            0x20..=0x7e => s.push(b as char),
            _ => s.push_str(&format!("\\x{:02x}", b)),
        }
    }
    if bytes.len() > lim {
        s.push_str(&format!("…(+{} bytes)", bytes.len() - lim));
    }
    s
}

/// Split `len` items into non-empty consecutive pieces; 0-draws give one single piece.
pub fn split_points(w: &World, len: usize, max_pieces: usize) -> Vec<usize> {
    // returns piece lengths
    if len == 0 {
        return vec![];
    }
    let pieces = 1 + w.draw(len.min(max_pieces) as u64) as usize;
    let mut lens = Vec::with_capacity(pieces);
    let mut left = len;
    for i in 0..pieces {
        let remaining_pieces = pieces - i;
        if remaining_pieces == 1 {
            lens.push(left);
            break;
        }
        // leave at least 1 for each later piece
        let max_here = left - (remaining_pieces - 1);
        let l = 1 + w.draw(max_here as u64) as usize;
        lens.push(l);
        left -= l;
    }
    lens
}

/// A per-run "magic size": a boundary value (2^k-1, 2^k, 2^k+1, or a round decimal / customary
/// width) that several size knobs of the same run may adopt together — line wrap, buffer
/// capacity, chunk size, sequence or field length — so that coincidences such as "line exactly as
/// long as the buffer" or "wrap width 256 with a sequence of at least 256" are reached on purpose
/// rather than by luck. `max_pow` bounds k.
pub fn magic_size(w: &World, max_pow: u64) -> usize {
    match w.draw(8) {
        0 => *w.pick(&[60usize, 70, 80, 100, 10, 1000, 10_000, 255, 50]),
        _ => {
            // small powers most of the time
            let k = if w.chance(5, 6) { w.draw(max_pow.min(12) + 1) } else { w.draw(max_pow + 1) };
            let base = 1usize << k;
            match w.draw(3) {
                0 => base,
                1 => base + 1,
                _ => base.saturating_sub(1).max(1),
            }
        }
    }
}

/// A length near a magic size m: m-1, m, m+1, 2m, or k*m + r.
pub fn near_magic(w: &World, m: usize, cap: usize) -> usize {
    let v = match w.draw(6) {
        0 => m,
        1 => m + 1,
        2 => m.saturating_sub(1),
        3 => 2 * m,
        4 => 2 * m + 1,
        _ => m * (1 + w.draw(3) as usize) + w.draw(m as u64 + 1) as usize,
    };
    v.clamp(1, cap)
}

/// Characters whose code point, cut down to its low byte by an `as u8`, is an ASCII character with
/// a meaning in these formats (tab, LF, CR, NUL, blank, '"', '#', '+', ',', ';', '=', '>', '@', '-'):
/// U+0109, U+010A, U+010D, U+0100, U+0120, U+0122, U+0123, U+012B, U+012C, U+013B, U+013D, U+013E,
/// U+0140, U+200D, U+FF0D. None of them is white space.
pub const LOW_BYTE_SPECIAL: [char; 15] = ['ĉ', 'Ċ', 'č', 'Ā', 'Ġ', 'Ģ', 'ģ', 'ī', 'Ĭ', 'Ļ', 'Ľ', 'ľ', 'ŀ', '\u{200d}', '－'];
