//! C12 — indexed FASTA random access returns exactly the requested slice.
//!
//! A FASTA file with per-record uniform line width and an independently computed .fai are put on
//! a seekable simulated file; an operation history of fetch / read / read_iter calls is run on
//! one IndexedReader while the simulator fragments reads, injects EINTR and EIO, and truncates
//! the file. Every operation is judged against a Vec-backed reference model alone.

use crate::gen::{magic_size, near_magic, show, string_from};
use crate::runner::{fail, Property, Scenario, Verdict};
use crate::world::{Chunk, IoCfg, SimRead, SimSeekRead, World, CHUNKS, W};
use bio::io::fasta::{Index, IndexedReader};
use serde_json::json;
use std::rc::Rc;

/// sequence-name alphabet: printable ASCII without white space ('"' included since /repo 6276305),
/// plus a few multi-byte characters; 'c' first (simplest).
fn name_chars() -> &'static [char] {
    static A: std::sync::OnceLock<Vec<char>> = std::sync::OnceLock::new();
    A.get_or_init(|| {
        let mut v = vec!['c', 'h', 'r', '1', '2', 'X', '_', '.'];
        for c in 33u8..=126 {
            if !v.contains(&(c as char)) {
                v.push(c as char);
            }
        }
        // 'à' 'Å': the last UTF-8 byte (A0, 85) read as Latin-1 is white space
        v.extend(['é', '中', '😀', '\u{7f}', 'à', 'Å']);
        v.extend(crate::gen::LOW_BYTE_SPECIAL);
        v
    })
}
const COLLIDING_NAMES: [&str; 12] = [
    "costarring", "liquid", "declinate", "macallums", "altarage", "zinke", "Aa", "BB", "plumless", "buckeroo", "AaAa", "BBBB",
];
/// nucleotide and amino-acid codes in both cases, gap, stop and unknown symbols (as in C11)
const BASES: &[u8] = b"ACGTNRYKMSWBDHVacgtn-*.UXEFILPQZefilpqzxu";

struct RecModel {
    name: String,
    seq: Vec<u8>,
    width: usize,
    /// what the index says about this record
    offset: u64,
    line_bases: u64,
    line_bytes: u64,
}

struct FileModel {
    recs: Vec<RecModel>,
    bytes: Vec<u8>,
    fai: Vec<u8>,
    tlen: usize,
}

const WIDTHS_EDGE: [usize; 8] = [60, 511, 512, 513, 8191, 8192, 8193, 70];

#[derive(Clone, Copy, PartialEq, Eq, Debug)]
enum Scale {
    Small,
    /// lengths up to 20 000, widths around 512 and 8192
    Large,
    /// lengths up to 300 000, widths up to 70 000 (crosses 64 KiB)
    Huge,
    /// up to 40 records with similar names
    Many,
}

fn gen_file(w: &World, scale: Scale, max_recs: u64, max_len: u64) -> FileModel {
    // a per-run magic size that line widths and lengths may share (see gen::magic_size)
    let magic = if scale == Scale::Small && max_len >= 60 && w.chance(1, 4) { Some(magic_size(w, 16)) } else { None };
    if magic.is_some() {
        w.probe("magic_size_run");
    }
    let crlf = w.chance(1, 2);
    let term: &[u8] = if crlf { b"\r\n" } else { b"\n" };
    let last_line_terminated = !w.chance(1, 3);
    // draw the records first (one continue-flag per record), lay the file out afterwards
    struct Plan {
        name: String,
        width: usize,
        seq: Vec<u8>,
        desc: bool,
        own_len_as_width: bool,
    }
    let mut plans: Vec<Plan> = Vec::new();
    let max_recs = if scale == Scale::Many { if w.chance(1, 4) { 300 } else { 40 } } else { max_recs };
    loop {
        let i = plans.len();
        if i > 0 {
            let go = if scale == Scale::Many { (i as u64) < max_recs && w.chance(if max_recs > 40 { 150 } else { 15 }, if max_recs > 40 { 151 } else { 16 }) } else { w.more(i as u64, max_recs) };
            if !go {
                break;
            }
        }
        let mut name = match w.draw(9) {
            // pairs of strings known to collide under common 32-bit hashes (FNV-1a, CRC32, Java's
            // hashCode, DJB2): a name→record map keyed by a hash must still tell them apart
            8 => COLLIDING_NAMES[w.draw(COLLIDING_NAMES.len() as u64) as usize].to_string(),
            // names that are prefixes / extensions of an earlier name, and numeric-looking names
            1 if i > 0 => format!("{}{}", plans[w.draw(i as u64) as usize].name, string_from(w, name_chars(), 1, 2)),
            2 => format!("{}", w.draw(30)),
            // names as assemblies and allele databases write them; several look like region syntax
            5 if w.chance(1, 2) => (*w.pick(&[
                "chr1", "chrM", "MT", "chrUn_gl000220", "chr1_KI270706v1_random", "HLA-A*01:01:01:01", "NC_000001.11", "gi|568815597|ref|NC_000001.11|", "chr1:100-200",
                "chr1:100", "scaffold_1|size123", "lambda", "phiX174", "1", "X", "*", "=", "chr1-2", "chr1:1-100:+",
            ]))
            .to_string(),
            // an extract of an earlier record, named as samtools faidx heads it: name:beg-end
            6 if i > 0 => {
                let base = &plans[w.draw(i as u64) as usize];
                let l = base.seq.len().max(1) as u64;
                let b = 1 + w.draw(l);
                format!("{}:{}-{}", base.name, b, b + w.draw(l - b + 2))
            }
            // an earlier name in the other letter case, or in another Unicode normal form
            4 if i > 0 => {
                let base = &plans[w.draw(i as u64) as usize].name;
                if w.chance(1, 4) {
                    base.replace('é', "e\u{301}").replace('à', "a\u{300}").replace('Å', "A\u{30a}")
                } else {
                    base.chars().map(|c| if c.is_ascii_lowercase() { c.to_ascii_uppercase() } else { c.to_ascii_lowercase() }).collect()
                }
            }
            3 => string_from(w, name_chars(), 1, 40),
            _ => string_from(w, name_chars(), 1, 6),
        };
        while plans.iter().any(|p| p.name == name) {
            name.push_str(&format!("{}", i));
        }
        let (width, len) = match scale {
            Scale::Large => {
                let width = if w.chance(1, 2) { *w.pick(&WIDTHS_EDGE) } else { 1 + w.draw(100) as usize };
                (width, 1 + w.draw(20_000) as usize)
            }
            Scale::Huge => {
                let width = match w.draw(3) {
                    0 => *w.pick(&[65535usize, 65536, 65537, 16384, 32768, 70_000]),
                    1 => 1 + w.draw(70_000) as usize,
                    _ => *w.pick(&WIDTHS_EDGE),
                };
                (width, 1 + w.draw(300_000) as usize)
            }
            _ => match magic {
                Some(m) if w.chance(1, 2) => {
                    let width = if w.chance(2, 3) { m } else { 1 + w.small(0, 11) as usize };
                    (width, near_magic(w, m, 300_000))
                }
                _ => (1 + w.small(0, 11) as usize, 1 + w.small(0, max_len - 1) as usize),
            },
        };
        // position-dependent pattern so that any shift or drop is visible; two draws, not `len`
        let a = w.draw(BASES.len() as u64) as usize;
        let b = 1 + w.draw(6) as usize;
        let seq: Vec<u8> = (0..len)
            .map(|i| BASES[(a + i * b + i / 7 + i / 61 + i / 4099) % BASES.len()])
            .collect();
        // 1 record in 8: a stretch of one repeated symbol (runs of N, gaps, soft-masked bases), which
        // the position-dependent pattern never produces by itself
        let mut seq = seq;
        if len >= 2 && w.chance(1, 8) {
            let a = w.draw(len as u64) as usize;
            let l = 1 + w.small(1, (len - a - 1).max(1) as u64) as usize;
            let c = *w.pick(b"N-nn*.Aa");
            for x in seq[a..(a + l).min(len)].iter_mut() {
                *x = c;
            }
            w.probe("sequence_with_a_run_of_one_symbol");
        }
        // 1 record in 15 (small files only) has no bases at all: header line only, and the row
        // samtools faidx writes for it carries 0 for both line widths
        let seq = if scale == Scale::Small && w.chance(1, 15) {
            w.probe("empty_record");
            Vec::new()
        } else {
            seq
        };
        let len = seq.len();
        let desc = w.chance(1, 3);
        // a single-line record may be described by its own length (what samtools writes) or by
        // the nominal width: both match the file
        let own_len_as_width = len <= width && w.chance(1, 2);
        plans.push(Plan { name, width, seq, desc, own_len_as_width });
    }
    let n = plans.len();
    let mut recs = Vec::new();
    let mut bytes = Vec::new();
    for (i, p) in plans.into_iter().enumerate() {
        let len = p.seq.len();
        bytes.push(b'>');
        bytes.extend_from_slice(p.name.as_bytes());
        if p.desc {
            bytes.extend_from_slice(b" some description");
        }
        bytes.extend_from_slice(term);
        let offset = bytes.len() as u64;
        let mut q = 0;
        while q < len {
            let l = p.width.min(len - q);
            bytes.extend_from_slice(&p.seq[q..q + l]);
            q += l;
            let is_last_line_of_file = q == len && i + 1 == n;
            if !is_last_line_of_file || last_line_terminated {
                bytes.extend_from_slice(term);
            }
        }
        let lb = if len == 0 {
            0
        } else if p.own_len_as_width {
            len
        } else {
            p.width
        };
        // the single line of the file's last record, left without its terminator: samtools faidx
        // measures that line as it is and writes the same number for both widths
        let bare_last_line = len > 0 && len <= p.width && i + 1 == n && !last_line_terminated && w.chance(1, 2);
        if bare_last_line {
            w.probe("fai_equal_widths_for_unterminated_last_line");
        }
        let lb = if bare_last_line { len } else { lb };
        recs.push(RecModel {
            name: p.name,
            seq: p.seq,
            width: lb,
            offset,
            line_bases: lb as u64,
            line_bytes: if lb == 0 {
                0
            } else if bare_last_line {
                lb as u64
            } else {
                (lb + term.len()) as u64
            },
        });
    }
    // The rows of a .fai need not be in file order (a sorted or subsetted index still matches the
    // file); record numbers follow the rows. Permute the model accordingly.
    if recs.len() > 1 && w.chance(1, 4) {
        for i in 0..recs.len() {
            let j = i + w.draw((recs.len() - i) as u64) as usize;
            recs.swap(i, j);
        }
        if recs.windows(2).any(|p| p[0].offset > p[1].offset) {
            w.fired("fai_rows_not_in_file_order");
            w.probe("fai_rows_not_in_file_order");
        }
    }
    // .fai by the reference indexer
    let fai_crlf = w.chance(1, 4);
    let fai_last_term = !w.chance(1, 3);
    let mut fai = Vec::new();
    for (i, r) in recs.iter().enumerate() {
        fai.extend_from_slice(
            format!("{}\t{}\t{}\t{}\t{}", r.name, r.seq.len(), r.offset, r.line_bases, r.line_bytes).as_bytes(),
        );
        if i + 1 < recs.len() || fai_last_term {
            fai.extend_from_slice(if fai_crlf { b"\r\n" } else { b"\n" });
        }
    }
    if crlf {
        w.fired("crlf");
    }
    if !last_line_terminated {
        w.probe("file_without_final_terminator");
    }
    FileModel {
        recs,
        bytes,
        fai,
        tlen: term.len(),
    }
}

impl FileModel {
    /// file offset of base i of record r
    fn off(&self, r: usize, i: u64) -> u64 {
        let rec = &self.recs[r];
        if rec.line_bases == 0 {
            return rec.offset;
        }
        rec.offset + (i / rec.line_bases) * rec.line_bytes + i % rec.line_bases
    }
    fn json(&self) -> serde_json::Value {
        json!({
            "records": self.recs.iter().map(|r| json!({"name": r.name, "len": r.seq.len(), "offset": r.offset, "line_bases": r.line_bases, "line_bytes": r.line_bytes, "seq": show(&r.seq[..r.seq.len().min(80)])})).collect::<Vec<_>>(),
            "file_len": self.bytes.len(),
            "file": show(&self.bytes[..self.bytes.len().min(300)]),
            "fai": show(&self.fai),
        })
    }
}

#[derive(Clone, Copy, Debug, PartialEq, Eq)]
struct Region {
    rid: usize,
    s: u64,
    e: u64,
}

#[derive(Clone, Copy, Debug, PartialEq, Eq)]
enum Fetched {
    None,
    Region(Region),
    /// a fetch failed; the code may keep the previous region (or none)
    Unknown(Option<Region>),
}

#[derive(Clone, Debug)]
enum FetchOp {
    Name(usize, u64, u64),
    Rid(usize, u64, u64),
    AllName(usize),
    AllRid(usize),
    UnknownName,
    BadRid(usize),
    /// keep the current region
    Keep,
}

#[derive(Clone, Copy, Debug, PartialEq, Eq)]
enum ReadOp {
    Buffer,
    BufferTwice,
    IterFull,
    IterPartial(u64),
    Nothing,
}

/// A coordinate on or next to a multiple of `unit` (line width, iterator buffer, BufReader size).
fn aligned(w: &World, len: u64, unit: u64) -> u64 {
    let unit = unit.max(1);
    let k = w.draw(len / unit + 2);
    let d = [0i64, -1, 1][w.draw(3) as usize];
    ((k * unit) as i64 + d).clamp(0, len as i64) as u64
}

fn gen_interval(w: &World, len: u64, width: u64) -> (u64, u64, bool) {
    // returns (s, e, valid)
    match w.draw(15) {
        12 | 13 => {
            // both ends on / next to a line boundary or a buffer-size multiple
            let unit = *w.pick(&[width, 512, 8192, width * 2, 64]);
            let a = aligned(w, len, unit);
            let b = aligned(w, len, unit);
            (a.min(b), a.max(b), true)
        }
        14 => {
            // an interval of exactly a buffer-size-like length
            let l = (*w.pick(&[512u64, 511, 513, 8192, 8191, 8193, width, width + 1])).min(len);
            let s = w.draw(len - l + 1);
            (s, s + l, true)
        }
        0..=6 => {
            let s = w.draw(len + 1);
            let e = s + w.draw(len - s + 1);
            (s, e, true)
        }
        7 => (0, len, true),
        8 => {
            // inverted
            // (1 in 3: inverted and beyond the end of the record at once)
            let e = if w.chance(1, 3) { len + 1 + w.draw(5) } else { w.draw(len.max(1)) };
            let s = if w.chance(1, 8) { u64::MAX } else { e + 1 + w.draw(3) };
            (s, e, false)
        }
        9 => {
            // beyond the end
            let s = w.draw(len + 1);
            (s, len + 1 + w.draw(5), false)
        }
        10 => {
            let s = if w.chance(1, 2) { u64::MAX } else { w.draw(len + 1) };
            (s, u64::MAX, false)
        }
        _ => {
            let s = w.draw(len + 1);
            (s, s, true)
        }
    }
}

struct OpCtx<'a> {
    f: &'a FileModel,
    file_len_after_cut: u64,
    intact: bool,
}

/// What the model says about reading region `reg`.
enum Expect<'a> {
    /// must not succeed
    MustFail(&'static str),
    /// if it succeeds, exactly this; `must_succeed` when nothing excuses a failure
    Slice { data: &'a [u8], must_succeed: bool, must_fail_short_file: bool },
}

fn expect_for<'a>(cx: &OpCtx<'a>, st: Fetched) -> Vec<Expect<'a>> {
    // one or two acceptable behaviours
    let one = |reg: Region| -> Expect<'a> {
        let rec = &cx.f.recs[reg.rid];
        let len = rec.seq.len() as u64;
        if reg.s > reg.e {
            return Expect::MustFail("inverted interval");
        }
        if reg.e > len {
            return Expect::MustFail("interval beyond the end of the record");
        }
        let data = &rec.seq[reg.s as usize..reg.e as usize];
        let need_end = if reg.e > reg.s { cx.f.off(reg.rid, reg.e - 1) + 1 } else { 0 };
        let short = need_end > cx.file_len_after_cut;
        Expect::Slice {
            data,
            must_succeed: cx.intact,
            must_fail_short_file: short,
        }
    };
    match st {
        Fetched::None => vec![Expect::MustFail("no region was fetched")],
        Fetched::Region(r) => vec![one(r)],
        Fetched::Unknown(None) => vec![Expect::MustFail("no region was ever fetched successfully")],
        Fetched::Unknown(Some(r)) => vec![one(r), Expect::MustFail("previous fetch failed")],
    }
}

fn run_history(w: &W, f: &FileModel, steps: u64, allow_faults: bool, allow_cut: bool) -> Verdict {
    // storage event: truncation (the index still describes the full file)
    let full_len = f.bytes.len();
    let mut data = f.bytes.clone();
    let mut cut: Option<usize> = None;
    if allow_cut && w.chance(1, 3) {
        let c = match w.draw(3) {
            0 => w.draw(full_len as u64 + 1) as usize,
            1 => {
                // inside or right at the end of some record's sequence block
                let r = w.draw(f.recs.len() as u64) as usize;
                let rec = &f.recs[r];
                let i = w.draw(rec.seq.len() as u64);
                (f.off(r, i) as i64 + w.draw(4) as i64 - 1).clamp(0, full_len as i64) as usize
            }
            _ => full_len - (1 + w.draw(3) as usize).min(full_len),
        };
        if c < full_len {
            data.truncate(c);
            cut = Some(c);
            w.fired("cut");
            w.sig_mix(0x200 + (c * 16 / (full_len + 1)) as u64);
        }
    }
    let data = Rc::new(data);
    let base_chunk = if allow_faults { *w.pick(&CHUNKS) } else { Chunk::Full };
    let base = IoCfg {
        chunk: base_chunk,
        eintr_pm: 0,
        eio_pm: 0,
    };
    let src = SimSeekRead::new(w, data.clone(), base, "fasta");
    let cfg_cell = src.cfg.clone();
    let cuts = src.cuts.clone();

    // index through its own fragmenting stream
    let fai_cfg = if allow_faults { IoCfg::draw(w, false) } else { IoCfg::CLEAN };
    let fai_src = SimRead::new(w, Rc::new(f.fai.clone()), fai_cfg, "fai");
    w.set_budget(8 * f.fai.len() as u64 + 1000);
    w.clause("C12.f-index");
    let via_new = w.chance(1, 2);
    let mut reader = if via_new {
        match IndexedReader::new(src, fai_src) {
            Ok(r) => r,
            Err(e) => return fail("C12.f-index", format!("IndexedReader::new rejected a well-formed .fai: {}", e)),
        }
    } else {
        match Index::new(fai_src) {
            Ok(ix) => IndexedReader::with_index(src, ix),
            Err(e) => return fail("C12.f-index", format!("Index::new rejected a well-formed .fai: {}", e)),
        }
    };
    w.set_budget(u64::MAX);
    {
        let seqs = reader.index.sequences();
        let got: Vec<(String, u64)> = seqs.iter().map(|s| (s.name.clone(), s.len)).collect();
        let want: Vec<(String, u64)> = f.recs.iter().map(|r| (r.name.clone(), r.seq.len() as u64)).collect();
        if got != want {
            return fail("C12.f-index", format!("Index::sequences() = {:?}, the .fai lists {:?}", got, want));
        }
    }

    if w.keep_trace {
        w.note("file", f.json());
        w.note("cut_at", json!(cut));
        w.note("read_regime", json!(base_chunk.name()));
        w.note("constructor", json!(if via_new { "IndexedReader::new(file, fai)" } else { "IndexedReader::with_index(file, Index::new(fai))" }));
    }

    let cx = OpCtx {
        f,
        file_len_after_cut: data.len() as u64,
        intact: cut.is_none(),
    };
    let mut st = Fetched::None;
    // read operations performed since the last successful fetch: the property speaks of "fetching
    // … and then reading"; whether a *second* read without a new fetch returns the same slice again
    // or an error ("nothing fetched") is left open, so from the second read on both are accepted
    let mut reads_since_fetch = 0u32;
    let mut last_region: Option<Region> = None;
    // model record m is record number rid_of[m] of the reader's current index
    let mut rid_of: Vec<usize> = (0..f.recs.len()).collect();
    let mut log: Vec<serde_json::Value> = Vec::new();
    let mut prev_failed_read = false;
    let mut prev_iter_dropped = false;
    let mut stale: Vec<u8> = b"STALE-STALE".to_vec();

    let mut step = 0u64;
    loop {
        if step > 0 && !(if steps > 300 { w.more_p(step, steps, 1500, 1501) } else if steps > 60 { w.more_p(step, steps, 150, 151) } else if steps > 10 { w.more_p(step, steps, 19, 20) } else { w.more(step, steps) }) {
            break;
        }
        let this_step = step;
        step += 1;
        let step = this_step;
        // ---- fetch part
        let nrec = f.recs.len();
        let fop = match w.draw(11) {
            // a request related to the previous one: adjacent, same start, one base further, or
            // the same interval on the next record
            10 => match last_region {
                Some(p) => {
                    let len = f.recs[p.rid].seq.len() as u64;
                    w.probe("request_related_to_previous");
                    match w.draw(5) {
                        0 => FetchOp::Name(p.rid, p.e.min(len), (p.e + w.draw(6)).min(len)),
                        1 => FetchOp::Rid(p.rid, p.s.min(len), (p.s + w.draw(8)).min(len).max(p.s.min(len))),
                        2 => FetchOp::Name(p.rid, (p.e + 1).min(len), len),
                        3 => {
                            let r2 = (p.rid + 1) % nrec;
                            let l2 = f.recs[r2].seq.len() as u64;
                            FetchOp::Rid(r2, p.s.min(l2), p.e.min(l2).max(p.s.min(l2)))
                        }
                        _ => FetchOp::Name(p.rid, p.s.saturating_sub(1).min(len), p.e.min(len).max(p.s.saturating_sub(1).min(len))),
                    }
                }
                None => FetchOp::Keep,
            },
            0..=2 => {
                let r = w.draw(nrec as u64) as usize;
                let (s, e, _) = gen_interval(w, f.recs[r].seq.len() as u64, f.recs[r].line_bases);
                FetchOp::Name(r, s, e)
            }
            3..=4 => {
                let r = w.draw(nrec as u64) as usize;
                let (s, e, _) = gen_interval(w, f.recs[r].seq.len() as u64, f.recs[r].line_bases);
                FetchOp::Rid(r, s, e)
            }
            5 => FetchOp::AllName(w.draw(nrec as u64) as usize),
            6 => FetchOp::AllRid(w.draw(nrec as u64) as usize),
            7 => FetchOp::UnknownName,
            8 => FetchOp::BadRid(match w.draw(6) {
                0 => nrec + w.draw(3) as usize,
                // a valid number plus a multiple of 2^8 / 2^16 / 2^32, and the top of the range:
                // record numbers handled in a narrower integer type
                1 => w.draw(nrec as u64) as usize + (1usize << 32),
                2 => w.draw(nrec as u64) as usize + (1usize << 16) * (1 + w.draw(3) as usize),
                3 => usize::MAX,
                4 => w.draw(nrec as u64) as usize + 256 * (1 + nrec / 256),
                _ => (1usize << 63) + w.draw(nrec as u64) as usize,
            }),
            _ => FetchOp::Keep,
        };
        let fetch_res: Option<(std::io::Result<()>, Option<Region>)> = match &fop {
            FetchOp::Name(r, s, e) => Some((reader.fetch(&f.recs[*r].name, *s, *e), Some(Region { rid: *r, s: *s, e: *e }))),
            FetchOp::Rid(r, s, e) => Some((reader.fetch_by_rid(rid_of[*r], *s, *e), Some(Region { rid: *r, s: *s, e: *e }))),
            FetchOp::AllName(r) => Some((
                reader.fetch_all(&f.recs[*r].name),
                Some(Region { rid: *r, s: 0, e: f.recs[*r].seq.len() as u64 }),
            )),
            FetchOp::AllRid(r) => Some((
                reader.fetch_all_by_rid(rid_of[*r]),
                Some(Region { rid: *r, s: 0, e: f.recs[*r].seq.len() as u64 }),
            )),
            FetchOp::UnknownName => {
                // a name that is not in the index: unrelated, or a near miss of an existing one
                // (other letter case, a prefix, an extension, the other member of a hash collision)
                let base = &f.recs[w.draw(nrec as u64) as usize].name;
                let mut nm = match w.draw(6) {
                    0 => String::from("no-such-sequence"),
                    1 => base.chars().map(|c| if c.is_ascii_lowercase() { c.to_ascii_uppercase() } else { c.to_ascii_lowercase() }).collect(),
                    2 => base.chars().take(base.chars().count().saturating_sub(1)).collect(),
                    3 => {
                        // the name as it appears in a line of a list, a header or a .fai row: with a
                        // line terminator, a blank, a tab, a NUL, the '>' of its header, a description
                        let affix = *w.pick(&["x", "\n", "\r\n", "\r", " ", "\t", "\0", "\u{a0}", " desc", "\t1\t2\t3\t4", "\u{feff}", "/1", ":0-1", ":1-1", ":1-2", ":2-3", ":1", ":1-"]);
                        match w.draw(10) {
                            0..=4 => format!("{}{}", base, affix),
                            5 => format!(">{}", base),
                            // what other tools do with a name they cannot find: add or drop the "chr"
                            // prefix, drop or add a version suffix, cut at a bar
                            6 => match base.strip_prefix("chr") {
                                Some(rest) if !rest.is_empty() => rest.to_string(),
                                _ => format!("chr{}", base),
                            },
                            // aliases and database prefixes other tools try when a name is unknown
                            8 => match base.as_str() {
                                "MT" => "chrM".to_string(),
                                "chrM" => "MT".to_string(),
                                "X" => "23".to_string(),
                                _ => {
                                    let pre = *w.pick(&["lcl|", "gnl|", "ref|", "gi|", "sp|", "chr", "Chr", "CHR"]);
                                    match base.strip_prefix(pre) {
                                        Some(rest) if !rest.is_empty() => rest.to_string(),
                                        _ => format!("{}{}", pre, base),
                                    }
                                }
                            },
                            7 => match base.rfind(['.', '|']) {
                                Some(i) if i > 0 => base[..i].to_string(),
                                _ => format!("{}{}", base, *w.pick(&[".1", "|x", ".fa"])),
                            },
                            9 => format!("{}{}", affix, base),
                            _ => format!("{}{}", affix, base),
                        }
                    }
                    4 => COLLIDING_NAMES[w.draw(COLLIDING_NAMES.len() as u64) as usize].to_string(),
                    5 if w.chance(1, 2) => {
                        // a long unknown name of multi-byte characters at a drawn byte alignment
                        // (error messages that quote the name must cope with it)
                        let pad = w.draw(4) as usize;
                        let n = *w.pick(&[40usize, 64, 100, 130, 300]);
                        format!("{}{}", "x".repeat(pad), (*w.pick(&["é", "中", "😀"])).repeat(n))
                    }
                    _ => format!(" {}", base),
                };
                if nm.is_empty() {
                    nm.push('?');
                }
                while f.recs.iter().any(|r| r.name == nm) {
                    nm.push('!');
                }
                w.probe("unknown_name_near_miss");
                let res = if w.chance(1, 2) { reader.fetch(&nm, 0, 1) } else { reader.fetch_all(&nm) };
                Some((res, None))
            }
            FetchOp::BadRid(r) => {
                let res = if w.chance(1, 2) { reader.fetch_by_rid(*r, 0, 1) } else { reader.fetch_all_by_rid(*r) };
                Some((res, None))
            }
            FetchOp::Keep => None,
        };
        if let Some((res, reg)) = fetch_res {
            w.clause("C12.d-must-fail");
            match (res, reg) {
                (Ok(()), None) => {
                    return fail(
                        "C12.d-must-fail",
                        format!("step {}: {:?} returned Ok for an unknown name / record number", step, fop),
                    );
                }
                (Err(_), None) => {
                    w.probe("fetch_rejected_unknown_target");
                    st = Fetched::Unknown(match st {
                        Fetched::Region(r) => Some(r),
                        Fetched::Unknown(r) => r,
                        Fetched::None => None,
                    });
                }
                (Ok(()), Some(r)) => {
                    st = Fetched::Region(r);
                    reads_since_fetch = 0;
                    if r.s <= r.e && r.e <= f.recs[r.rid].seq.len() as u64 {
                        last_region = Some(r);
                    }
                }
                (Err(e), Some(r)) => {
                    // fetch of an existing record: only an invalid interval may be refused here
                    let len = f.recs[r.rid].seq.len() as u64;
                    if r.s <= r.e && r.e <= len && cx.intact {
                        return fail(
                            "C12.c-must-succeed",
                            format!("step {}: {:?} on an existing record with a valid interval failed: {}", step, fop, e),
                        );
                    }
                    st = Fetched::Unknown(match st {
                        Fetched::Region(r) => Some(r),
                        Fetched::Unknown(r) => r,
                        Fetched::None => None,
                    });
                }
            }
        }

        // now and then the caller replaces the reader's public index: by an equal copy, or by another
        // matching index of the same file whose rows are in a different order (record numbers then
        // follow the new rows; names must keep meaning the same records)
        if w.chance(1, 30) {
            if nrec > 1 && w.chance(1, 2) {
                let mut perm: Vec<usize> = (0..nrec).collect();
                for i in 0..nrec {
                    let j = i + w.draw((nrec - i) as u64) as usize;
                    perm.swap(i, j);
                }
                let mut text = String::new();
                for &m in &perm {
                    let r = &f.recs[m];
                    text.push_str(&format!("{}\t{}\t{}\t{}\t{}\n", r.name, r.seq.len(), r.offset, r.line_bases, r.line_bytes));
                }
                match Index::new(text.as_bytes()) {
                    Ok(ix) => reader.index = ix,
                    Err(e) => return fail("C12.f-index", format!("Index::new rejected a well-formed .fai: {}", e)),
                }
                for (pos, &m) in perm.iter().enumerate() {
                    rid_of[m] = pos;
                }
                w.probe("index_replaced_by_permuted_index");
            } else {
                reader.index = reader.index.clone();
                w.probe("index_replaced_by_its_clone");
            }
        }
        // ---- read part
        let rop = match w.draw(8) {
            0..=2 => ReadOp::Buffer,
            3 => ReadOp::BufferTwice,
            4..=5 => ReadOp::IterFull,
            6 => ReadOp::IterPartial(w.draw(6)),
            _ => ReadOp::Nothing,
        };
        if rop == ReadOp::Nothing {
            if w.keep_trace {
                log.push(json!({"step": step, "fetch": format!("{:?}", fop), "read": "none"}));
            }
            continue;
        }
        // "through the byte iterator" means through any method of Iterator, not only next():
        // 1 valid, first, fault-free iterator read in 4 (on an intact file) is driven through nth(),
        // step_by(), skip()/take(), last() or count() instead, and compared with the same adaptor
        // applied to the model slice.
        if let (ReadOp::IterFull, Fetched::Region(r), true, 0) = (rop, st, cx.intact, reads_since_fetch) {
            let len = f.recs[r.rid].seq.len() as u64;
            if r.s <= r.e && r.e <= len && w.chance(1, 4) {
                w.probe("iterator_driven_through_adaptors");
                w.clause("C12.b-iter");
                let want: Vec<u8> = f.recs[r.rid].seq[r.s as usize..r.e as usize].to_vec();
                w.set_budget(8 * ((r.e - r.s) * 3 + 16) + 1000);
                let it = match reader.read_iter() {
                    Ok(it) => it,
                    Err(e) => return fail("C12.c-must-succeed", format!("step {}: read_iter() after {:?} failed on an intact file with no fault injected: {}", step, fop, e)),
                };
                let style = w.draw(11);
                let (got, expect, how): (Vec<u8>, Vec<u8>, String) = match style {
                    0 => {
                        // nth with varying strides, after consuming a few items with next()
                        let mut it = it;
                        let mut got = vec![];
                        let mut expect = vec![];
                        let mut p = 0usize;
                        let pre = w.draw(4) as usize;
                        for _ in 0..pre {
                            if let Some(Ok(b)) = it.next() {
                                got.push(b);
                            }
                            if p < want.len() {
                                expect.push(want[p]);
                                p += 1;
                            }
                        }
                        let mut guard = 0;
                        loop {
                            let n = w.draw(4) as usize;
                            let item = it.nth(n);
                            let exp = if p + n < want.len() { Some(want[p + n]) } else { None };
                            p = (p + n + 1).min(want.len() + 1);
                            match (item, exp) {
                                (Some(Ok(b)), _) => got.push(b),
                                (Some(Err(e)), _) => return fail("C12.c-must-succeed", format!("step {}: iterator.nth() yielded an error on an intact file: {}", step, e)),
                                (None, _) => {}
                            }
                            if let Some(x) = exp {
                                expect.push(x);
                            } else {
                                break;
                            }
                            guard += 1;
                            if guard > want.len() + 8 {
                                break;
                            }
                        }
                        (got, expect, format!("{} × next(), then nth(n) with drawn n", pre))
                    }
                    1 => {
                        let k = 1 + w.draw(5) as usize;
                        let got: Vec<u8> = it.step_by(k).take(want.len() + 8).filter_map(|x| x.ok()).collect();
                        (got, want.iter().copied().step_by(k).collect(), format!("step_by({})", k))
                    }
                    2 => {
                        let a = w.draw(6) as usize;
                        let b = w.draw(6) as usize;
                        let got: Vec<u8> = it.skip(a).take(b).filter_map(|x| x.ok()).collect();
                        (got, want.iter().copied().skip(a).take(b).collect(), format!("skip({}).take({})", a, b))
                    }
                    3 => {
                        let got: Vec<u8> = it.take(want.len() + 8).last().and_then(|x| x.ok()).into_iter().collect();
                        (got, want.last().copied().into_iter().collect(), "last()".to_string())
                    }
                    4 => {
                        let n = it.take(want.len() + 8).count();
                        (vec![(n % 251) as u8], vec![(want.len() % 251) as u8], "count() (mod 251)".to_string())
                    }
                    5 => {
                        // fold (try_fold underneath for many adaptors)
                        let got: Vec<u8> = it.take(want.len() + 8).fold(Vec::new(), |mut acc, x| {
                            if let Ok(b) = x {
                                acc.push(b);
                            }
                            acc
                        });
                        (got, want.clone(), "fold".to_string())
                    }
                    7..=10 => {
                        // methods called on the iterator ITSELF (not through an adaptor, which would
                        // route them to next/try_fold), after a drawn number of next() calls — possibly
                        // all of them, so that the region is already used up
                        let mut it = it;
                        let pre = match w.draw(3) {
                            0 => 0,
                            1 => w.draw(want.len() as u64 + 1) as usize,
                            _ => want.len(),
                        };
                        let mut got: Vec<u8> = vec![];
                        for _ in 0..pre {
                            if let Some(Ok(b)) = it.next() {
                                got.push(b);
                            }
                        }
                        let mut expect: Vec<u8> = want[..pre.min(want.len())].to_vec();
                        let rest = &want[pre.min(want.len())..];
                        let how = match style {
                            7 => {
                                got.extend(it.last().and_then(|x| x.ok()));
                                expect.extend(rest.last().copied());
                                "last()"
                            }
                            8 => {
                                got.push((it.count() % 251) as u8);
                                expect.push((rest.len() % 251) as u8);
                                "count() (mod 251)"
                            }
                            9 => {
                                let tail = it.fold(Vec::new(), |mut acc: Vec<u8>, x| {
                                    if acc.len() < 1_000_000 {
                                        acc.push(x.unwrap_or(b'?'));
                                    }
                                    acc
                                });
                                got.extend(tail);
                                expect.extend_from_slice(rest);
                                "fold()"
                            }
                            _ => {
                                let mut tail = vec![];
                                it.for_each(|x| {
                                    if tail.len() < 1_000_000 {
                                        tail.push(x.unwrap_or(b'?'))
                                    }
                                });
                                got.extend(tail);
                                expect.extend_from_slice(rest);
                                "for_each()"
                            }
                        };
                        (got, expect, format!("{} × next(), then {} on the iterator itself", pre, how))
                    }
                    _ => {
                        // Vec::extend / collect reserve from size_hint()
                        let mut got: Vec<u8> = Vec::new();
                        got.extend(it.map(|x| x.unwrap_or(b'?')));
                        if got.len() > want.len() + 8 {
                            got.truncate(want.len() + 8);
                        }
                        (got, want.clone(), "Vec::extend (size_hint)".to_string())
                    }
                };
                w.set_budget(u64::MAX);
                reads_since_fetch += 1;
                if w.keep_trace {
                    log.push(json!({"step": step, "fetch": format!("{:?}", fop), "read": format!("read_iter() driven through {}", how), "got": show(&got), "model": show(&expect)}));
                    w.note("history", json!(log));
                }
                if got != expect {
                    return fail(
                        "C12.b-iter",
                        format!("step {}: read_iter() after {:?} driven through {}: got {:?}, the same adaptor on the model slice gives {:?}", step, fop, how, show(&got), show(&expect)),
                    );
                }
                continue;
            }
        }
        // faults placed inside this operation
        let (eintr_pm, eio_pm) = if allow_faults {
            match w.draw(6) {
                0..=2 => (0, 0),
                3 => (150, 0),
                4 => (0, 80),
                _ => (100, 40),
            }
        } else {
            (0, 0)
        };
        cfg_cell.set(IoCfg {
            chunk: base_chunk,
            eintr_pm,
            eio_pm,
        });
        let mut accepts = expect_for(&cx, st);
        if reads_since_fetch > 0 && matches!(st, Fetched::Region(_)) {
            accepts.push(Expect::MustFail("the fetched region was already read once"));
            w.probe("re_read_without_new_fetch");
        }
        // budget: bytes from the seek target to the end of the request, generously
        let span = match st {
            Fetched::Region(r) | Fetched::Unknown(Some(r)) if r.s <= r.e && r.e <= f.recs[r.rid].seq.len() as u64 => {
                let rec = &f.recs[r.rid];
                (r.e - r.s) + ((r.e - r.s) / rec.line_bases.max(1) + 2) * (rec.line_bytes - rec.line_bases) + 16
            }
            _ => 16,
        };
        w.set_budget(8 * span + 1000);
        let reps = if rop == ReadOp::BufferTwice { 2 } else { 1 };
        for rep in 0..reps {
            let f0 = (w.eintr_total.get(), w.eio_total.get());
            let ev0 = w.ev.get();
            let outcome: Result<(Vec<u8>, bool, Option<String>), String>; // (data, complete, trailing error) or hard Err
            let mut items = 0u64;
            match rop {
                ReadOp::Buffer | ReadOp::BufferTwice => {
                    let mut buf = std::mem::take(&mut stale);
                    let r = reader.read(&mut buf);
                    outcome = match r {
                        Ok(()) => Ok((buf.clone(), true, None)),
                        Err(e) => Err(e.to_string()),
                    };
                    stale = buf;
                    if stale.is_empty() {
                        stale = b"STALE".to_vec();
                    }
                }
                ReadOp::IterFull | ReadOp::IterPartial(_) => {
                    let limit = match rop {
                        ReadOp::IterPartial(k) => Some(k),
                        _ => None,
                    };
                    match reader.read_iter() {
                        Err(e) => outcome = Err(e.to_string()),
                        Ok(mut it) => {
                            let mut got = Vec::new();
                            let mut err: Option<String> = None;
                            let mut complete = false;
                            let max_items = match st {
                                Fetched::Region(r) | Fetched::Unknown(Some(r)) => r.e.saturating_sub(r.s).saturating_add(8),
                                _ => 8,
                            };
                            loop {
                                if let Some(k) = limit {
                                    if items >= k {
                                        break;
                                    }
                                }
                                match it.next() {
                                    None => {
                                        complete = true;
                                        break;
                                    }
                                    Some(Ok(b)) => {
                                        items += 1;
                                        if err.is_some() {
                                            // data after an error item: treat as part of the stream
                                        }
                                        got.push(b);
                                    }
                                    Some(Err(e)) => {
                                        items += 1;
                                        if err.is_none() {
                                            err = Some(e.to_string());
                                        }
                                    }
                                }
                                // every injected fault may legally cost an extra (error) item
                                let fault_items = 4 * ((w.eintr_total.get() - f0.0) + (w.eio_total.get() - f0.1));
                                if items > max_items.saturating_add(fault_items) {
                                    w.clause("C12.b-iter");
                                    if w.keep_trace {
                                        w.note("history", json!(log));
                                    }
                                    return fail(
                                        "C12.b-iter",
                                        format!("step {}: {:?} after {:?}: iterator yielded {} items for a request of {} bases and still has not ended (more data than requested, or it never ends)", step, rop, fop, items, max_items.saturating_sub(8)),
                                    );
                                }
                            }
                            if limit.is_some() && !complete {
                                prev_iter_dropped = true;
                                w.probe("iterator_dropped_half_way");
                            }
                            outcome = Ok((got, complete, err));
                        }
                    }
                }
                ReadOp::Nothing => unreachable!(),
            }
            let fault_fired = (w.eintr_total.get(), w.eio_total.get()) != f0;
            if prev_failed_read {
                w.probe("read_after_failed_read");
            }
            if prev_iter_dropped && !matches!(rop, ReadOp::IterPartial(_)) {
                w.probe("operation_after_dropped_iterator");
                prev_iter_dropped = false;
            }
            if w.keep_trace {
                log.push(json!({"step": step, "rep": rep, "fetch": format!("{:?}", fop), "model_state": format!("{:?}", st), "read": format!("{:?}", rop),
                    "faults": {"eintr_pm": eintr_pm, "eio_pm": eio_pm, "fired_during_op": fault_fired},
                    "io_events": [ev0 + 1, w.ev.get()],
                    "outcome": match &outcome { Ok((d, c, e)) => json!({"ok_bytes": show(d), "complete": c, "error_item": e}), Err(e) => json!({"err": e}) }}));
                // keep the log note current so that a violation's decoded section has it
            }
            // ---- judge against the model
            w.clause("C12.a-slice");
            let is_iter = matches!(rop, ReadOp::IterFull | ReadOp::IterPartial(_));
            let partial = matches!(rop, ReadOp::IterPartial(_));
            let mut verdicts: Vec<Result<(), (String, String)>> = Vec::new();
            for acc in &accepts {
                let v: Result<(), (String, String)> = match (acc, &outcome) {
                    (Expect::MustFail(_), Err(_)) => Ok(()),
                    (Expect::MustFail(_), Ok((_, _, Some(_)))) => Ok(()),
                    // an iterator that was abandoned before it ended may not have reached the point
                    // where a lazily validating implementation reports the error: not judged
                    (Expect::MustFail(_), Ok((_, false, None))) if partial => Ok(()),
                    (Expect::MustFail(why), Ok((d, _, None))) => Err((
                        "C12.d-must-fail".into(),
                        format!("step {}: {:?} after {:?} returned Ok({:?}) although {}", step, rop, fop, show(d), why),
                    )),
                    (Expect::Slice { must_succeed, .. }, Err(e)) => {
                        if *must_succeed && !fault_fired {
                            Err((
                                "C12.c-must-succeed".into(),
                                format!("step {}: {:?} after {:?} failed on an intact file with no fault injected during the operation: {}", step, rop, fop, e),
                            ))
                        } else {
                            Ok(())
                        }
                    }
                    (Expect::Slice { data, must_succeed, must_fail_short_file }, Ok((got, complete, err))) => {
                        let want: &[u8] = data;
                        if got.len() > want.len() || got[..] != want[..got.len()] {
                            let clause = if is_iter { "C12.b-iter" } else { "C12.a-slice" };
                            Err((
                                clause.into(),
                                format!(
                                    "step {}: {:?} after {:?}: got {:?} ({} bytes), model says {:?} ({} bytes)",
                                    step, rop, fop, show(got), got.len(), show(want), want.len()
                                ),
                            ))
                        } else if got.len() < want.len() && err.is_none() && (*complete || !is_iter) {
                            // short data without any error
                            let clause = if *must_fail_short_file { "C12.d-must-fail" } else if is_iter { "C12.b-iter" } else { "C12.a-slice" };
                            Err((
                                clause.into(),
                                format!(
                                    "step {}: {:?} after {:?}: silently short: got {} of {} bases and no error{}",
                                    step, rop, fop, got.len(), want.len(),
                                    if *must_fail_short_file { " (the file is shorter than the index promises for this request)" } else { "" }
                                ),
                            ))
                        } else if err.is_some() && *must_succeed && !fault_fired {
                            Err((
                                "C12.c-must-succeed".into(),
                                format!("step {}: {:?} after {:?}: iterator yielded an error on an intact file with no fault injected: {:?}", step, rop, fop, err),
                            ))
                        } else if *must_fail_short_file && got.len() == want.len() && !partial {
                            Err((
                                "C12.d-must-fail".into(),
                                format!("step {}: {:?} after {:?}: complete data although the file ends before the request does — harness/model inconsistency or data invented", step, rop, fop),
                            ))
                        } else {
                            Ok(())
                        }
                    }
                };
                verdicts.push(v);
            }
            if !verdicts.iter().any(|v| v.is_ok()) {
                if w.keep_trace {
                    w.note("history", json!(log));
                }
                let (clause, msg) = verdicts.into_iter().next().unwrap().unwrap_err();
                return fail(&clause, msg);
            }
            reads_since_fetch += 1;
            // within a repeated read the second repetition is a re-read as well
            if rep == 0 && reps == 2 && matches!(st, Fetched::Region(_)) && accepts.len() == 1 {
                accepts.push(Expect::MustFail("the fetched region was already read once"));
            }
            // probes about the outcome
            match &outcome {
                Err(_) | Ok((_, _, Some(_))) => {
                    prev_failed_read = true;
                    if fault_fired {
                        w.probe("operation_failed_by_injected_fault");
                    }
                    if accepts.iter().any(|a| matches!(a, Expect::Slice { must_fail_short_file: true, .. })) {
                        w.probe("short_file_reported_as_error");
                    }
                }
                Ok((d, _, None)) => {
                    if prev_failed_read {
                        w.probe("exact_read_after_failed_operation");
                    }
                    prev_failed_read = false;
                    if d.is_empty() {
                        w.probe("empty_interval_read");
                    }
                }
            }
            if let Fetched::Region(r) = st {
                let rec = &f.recs[r.rid];
                if r.s <= r.e && r.e <= rec.seq.len() as u64 {
                    if r.s > 0 && r.s % rec.line_bases == 0 {
                        w.probe("start_on_line_boundary");
                    }
                    if r.e > 0 && r.e % rec.line_bases == 0 {
                        w.probe("stop_on_line_boundary");
                    }
                    if rec.width > 512 && is_iter {
                        w.probe("line_longer_than_iterator_buffer");
                    }
                    if rec.width > 8192 {
                        w.probe("line_longer_than_bufreader");
                    }
                    if let Some(c) = cut {
                        let need_end = if r.e > r.s { f.off(r.rid, r.e - 1) + 1 } else { 0 };
                        if (c as u64) < need_end && (c as u64) >= f.off(r.rid, r.s) {
                            w.probe("cut_inside_requested_range");
                        } else if (c as u64) >= need_end {
                            w.probe("cut_after_requested_range");
                            if (c as u64) < need_end + cx.f.tlen as u64 && r.e > r.s {
                                w.probe("cut_inside_terminator_after_range");
                            }
                        }
                    }
                }
            }
        }
        w.set_budget(u64::MAX);
        cfg_cell.set(base);
    }
    // read boundary inside a line terminator: the Ok(0) path of read_line
    {
        let c = cuts.borrow();
        for &p in c.iter() {
            if p < data.len() && (data[p] == b'\n' || data[p] == b'\r') && p > 0 && data[p - 1] != b'\n' {
                w.probe("read_boundary_before_terminator");
                break;
            }
        }
        for &p in c.iter() {
            if p < data.len() && p > 0 && data[p - 1] == b'\r' && data[p] == b'\n' {
                w.probe("read_boundary_inside_crlf");
                break;
            }
        }
    }
    if w.keep_trace {
        w.note("history", json!(log));
    }
    Ok(())
}

fn ix_history(w: &W) -> Verdict {
    // quick: 10/400 large, 6/400 many, 4/400 huge; thorough: 30, 20, 12 of 400
    let (l, m, h) = if crate::world::thorough() { (30, 20, 12) } else { (10, 6, 4) };
    let d = w.draw(400);
    let scale = if d < 400 - l - m - h {
        Scale::Small
    } else if d < 400 - m - h {
        Scale::Large
    } else if d < 400 - h {
        Scale::Many
    } else {
        Scale::Huge
    };
    match scale {
        Scale::Small => {}
        Scale::Large => w.probe("large_regime"),
        Scale::Many => w.probe("many_records_regime"),
        Scale::Huge => w.probe("huge_regime"),
    }
    let f = gen_file(w, scale, 4, 60);
    w.probe("workload_nonempty");
    let faults = w.chance(3, 4);
    // occasionally a long history on one reader
    let max_steps = if w.chance(1, 50) {
        match w.draw(12) {
            // thousands of operations on one reader: counters and totals kept over its life
            0 => {
                w.probe("history_of_thousands_of_operations");
                4000
            }
            1..=3 => 300,
            _ => 60,
        }
    } else {
        10
    };
    // thousands of operations only on small files: on a file of hundreds of kilobytes read in
    // one-byte chunks they would be 10^9 I/O events in one run
    let max_steps = if max_steps > 300 && f.bytes.len() > 20_000 { 300 } else { max_steps };
    run_history(w, &f, max_steps, faults, true)
}

fn ix_clean(w: &W) -> Verdict {
    // fault-free configuration: strict oracle only (no fault can excuse anything)
    let f = gen_file(w, Scale::Small, 3, 40);
    w.probe("workload_nonempty");
    w.fired("knob_fault_free_reference");
    run_history(w, &f, 10, false, false)
}

/// Every (s, e) pair of one small record, each under a fresh schedule.
fn ix_allpairs(w: &W) -> Verdict {
    let f = gen_file(w, Scale::Small, 2, if crate::world::thorough() { 48 } else { 24 });
    w.probe("workload_nonempty");
    w.probe("allpairs_sweep");
    let chunk = *w.pick(&CHUNKS);
    let data = Rc::new(f.bytes.clone());
    let src = SimSeekRead::new(w, data.clone(), IoCfg { chunk, eintr_pm: 0, eio_pm: 0 }, "fasta");
    if chunk != Chunk::Full {
        w.fired("knob_fragmented_file");
    } else {
        w.fired("knob_allpairs");
    }
    let ix = match Index::new(&f.fai[..]) {
        Ok(ix) => ix,
        Err(e) => return fail("C12.f-index", format!("Index::new rejected a well-formed .fai: {}", e)),
    };
    let mut reader = IndexedReader::with_index(src, ix);
    let r = w.draw(f.recs.len() as u64) as usize;
    let rec = &f.recs[r];
    let len = rec.seq.len() as u64;
    if w.keep_trace {
        w.note("file", f.json());
        w.note("sweep", json!({"record": r, "pairs": (len + 1) * (len + 2) / 2, "read_regime": chunk.name()}));
    }
    let use_iter = w.chance(1, 2);
    let by_name = w.chance(1, 2);
    let mut buf = Vec::new();
    for s in 0..=len {
        for e in s..=len {
            w.clause("C12.a-slice");
            w.set_budget(8 * ((e - s) * 3 + 16) + 1000);
            let fr = if by_name { reader.fetch(&rec.name, s, e) } else { reader.fetch_by_rid(r, s, e) };
            if let Err(er) = fr {
                return fail("C12.c-must-succeed", format!("fetch({}, {}, {}) failed: {}", rec.name, s, e, er));
            }
            let want = &rec.seq[s as usize..e as usize];
            if use_iter {
                let it = match reader.read_iter() {
                    Ok(it) => it,
                    Err(er) => return fail("C12.c-must-succeed", format!("read_iter() for [{}, {}) failed: {}", s, e, er)),
                };
                let mut got = Vec::new();
                for (n, item) in it.enumerate() {
                    match item {
                        Ok(b) => got.push(b),
                        Err(er) => return fail("C12.c-must-succeed", format!("iterator for [{}, {}) yielded an error on an intact file: {}", s, e, er)),
                    }
                    if n as u64 > e - s + 8 {
                        return fail("C12.g-livelock", format!("iterator for [{}, {}) does not end", s, e));
                    }
                }
                if got != want {
                    return fail("C12.b-iter", format!("[{}, {}) of {:?} (width {}): iterator gave {:?}, model says {:?}", s, e, rec.name, rec.width, show(&got), show(want)));
                }
            } else {
                if let Err(er) = reader.read(&mut buf) {
                    return fail("C12.c-must-succeed", format!("read() for [{}, {}) failed on an intact file: {}", s, e, er));
                }
                if buf != want {
                    return fail("C12.a-slice", format!("[{}, {}) of {:?} (width {}): read gave {:?}, model says {:?}", s, e, rec.name, rec.width, show(&buf), show(want)));
                }
            }
        }
    }
    w.set_budget(u64::MAX);
    Ok(())
}

/// Every partition of one tiny FASTA file into read() chunks, for one fetched interval: the
/// quantifier "forall fragmentations of read() results" decided exhaustively for files of up to
/// 14 (thorough: 16) bytes.
fn ix_partitions(w: &W) -> Verdict {
    let limit = if crate::world::thorough() { 16 } else { 14 };
    let mut f = gen_file(w, Scale::Small, 2, 6);
    // files above the limit are skipped (the sweep is exponential in the file length)
    if f.bytes.len() > limit {
        return Ok(());
    }
    w.probe("workload_nonempty");
    w.probe("all_partitions_sweep");
    w.fired("all_read_partitions");
    let r = w.draw(f.recs.len() as u64) as usize;
    let len = f.recs[r].seq.len() as u64;
    let s0 = w.draw(len + 1);
    let e0 = s0 + w.draw(len - s0 + 1);
    let use_iter = w.chance(1, 2);
    let by_name = w.chance(1, 2);
    // a second, adjacent request on the same reader (consecutive fetches are independent)
    let e1 = e0 + w.draw(len - e0 + 1);
    let n = f.bytes.len();
    if w.keep_trace {
        w.note("file", f.json());
        w.note("sweep", json!(format!("all {} partitions of {} bytes; fetch [{}, {}) then [{}, {}) of record {}; {}", 1u64 << (n - 1), n, s0, e0, e0, e1, r, if use_iter { "read_iter" } else { "read" })));
    }
    let data = Rc::new(std::mem::take(&mut f.bytes));
    let want0 = f.recs[r].seq[s0 as usize..e0 as usize].to_vec();
    let want1 = f.recs[r].seq[e0 as usize..e1 as usize].to_vec();
    let ix0 = match Index::new(&f.fai[..]) {
        Ok(ix) => ix,
        Err(e) => return fail("C12.f-index", format!("Index::new rejected a well-formed .fai: {}", e)),
    };
    for mask in 0..(1u64 << (n - 1)) {
        let src = SimSeekRead::new(w, data.clone(), IoCfg { chunk: Chunk::Mask(mask), eintr_pm: 0, eio_pm: 0 }, "fasta");
        let mut reader = IndexedReader::with_index(src, ix0.clone());
        w.set_budget(2000);
        for (s, e, want) in [(s0, e0, &want0), (e0, e1, &want1)] {
            w.clause("C12.a-slice");
            let fr = if by_name { reader.fetch(&f.recs[r].name, s, e) } else { reader.fetch_by_rid(r, s, e) };
            if let Err(er) = fr {
                return fail("C12.c-must-succeed", format!("partition mask {:#x}: fetch [{}, {}) failed: {}", mask, s, e, er));
            }
            let mut got = Vec::new();
            if use_iter {
                match reader.read_iter() {
                    Err(er) => return fail("C12.c-must-succeed", format!("partition mask {:#x}: read_iter() for [{}, {}) failed: {}", mask, s, e, er)),
                    Ok(it) => {
                        for (k, item) in it.enumerate() {
                            match item {
                                Ok(b) => got.push(b),
                                Err(er) => return fail("C12.c-must-succeed", format!("partition mask {:#x}: iterator for [{}, {}) yielded an error on an intact file: {}", mask, s, e, er)),
                            }
                            if k as u64 > e - s + 8 {
                                return fail("C12.b-iter", format!("partition mask {:#x}: iterator for [{}, {}) does not end", mask, s, e));
                            }
                        }
                    }
                }
            } else if let Err(er) = reader.read(&mut got) {
                return fail("C12.c-must-succeed", format!("partition mask {:#x}: read() for [{}, {}) failed on an intact file: {}", mask, s, e, er));
            }
            if got != **want {
                return fail(
                    if use_iter { "C12.b-iter" } else { "C12.a-slice" },
                    format!("read partition mask {:#x} (bit i = a read ends at file offset i+1) of {:?}: [{}, {}) of record {} gave {:?}, model says {:?}", mask, show(&data), s, e, r, show(&got), show(want)),
                );
            }
        }
        w.set_budget(u64::MAX);
    }
    Ok(())
}

/// One record of up to 2^35 bases served from a formula (`world::Virtual`): file offsets around
/// and beyond 2^31 and 2^32, where a narrowing cast in offset arithmetic would show.
/// An index of more than 65 536 records (tiny ones): record numbers and name lookups beyond the
/// range of 16-bit counters. Entered from ix_virtual in 1 run of 100.
fn ix_giant_index(w: &W) -> Verdict {
    w.probe("workload_nonempty");
    w.probe("index_with_more_than_65536_records");
    w.fired("knob_giant_index");
    let n = 65_530 + w.draw(3000) as usize;
    let crlf = w.chance(1, 2);
    let term: &[u8] = if crlf { b"\r\n" } else { b"\n" };
    let mut bytes: Vec<u8> = Vec::with_capacity(n * 10);
    let mut fai = String::with_capacity(n * 20);
    let mut offs: Vec<(u64, u8)> = Vec::with_capacity(n); // (offset, len)
    for i in 0..n {
        bytes.push(b'>');
        bytes.extend_from_slice(format!("s{}", i).as_bytes());
        bytes.extend_from_slice(term);
        let len = 1 + (i % 3);
        let off = bytes.len() as u64;
        for j in 0..len {
            bytes.push(BASES[(i + 3 * j) % BASES.len()]);
        }
        bytes.extend_from_slice(term);
        offs.push((off, len as u8));
        fai.push_str(&format!("s{}\t{}\t{}\t{}\t{}\n", i, len, off, len, len + term.len()));
    }
    let chunk = *w.pick(&[Chunk::Full, Chunk::Fixed(4096), Chunk::Fixed(7)]);
    let src = SimSeekRead::new(w, Rc::new(bytes), IoCfg { chunk, eintr_pm: 0, eio_pm: 0 }, "fasta");
    let mut reader = match IndexedReader::new(src, fai.as_bytes()) {
        Ok(r) => r,
        Err(e) => return fail("C12.f-index", format!("IndexedReader::new rejected a well-formed .fai of {} rows: {}", n, e)),
    };
    if reader.index.sequences().len() != n {
        return fail("C12.f-index", format!("Index::sequences() has {} entries, the .fai has {} rows", reader.index.sequences().len(), n));
    }
    if w.keep_trace {
        w.note("giant_index", json!({"records": n, "crlf": crlf, "read_regime": chunk.name()}));
    }
    let mut buf = vec![];
    for _ in 0..10 {
        let rid = match w.draw(7) {
            0 => 0,
            1 => 65_535,
            2 => 65_536,
            3 => 65_537,
            4 => n - 1,
            // (n may be a few short of 65 536: then any record)
            5 => 65_536 + w.draw(n.saturating_sub(65_536) as u64) as usize,
            _ => w.draw(n as u64) as usize,
        }
        .min(n - 1);
        let (_, len) = offs[rid];
        let want: Vec<u8> = (0..len as usize).map(|j| BASES[(rid + 3 * j) % BASES.len()]).collect();
        let by_name = w.chance(1, 2);
        w.clause("C12.a-slice");
        w.set_budget(2000);
        let fr = if by_name { reader.fetch_all(&format!("s{}", rid)) } else { reader.fetch_all_by_rid(rid) };
        if let Err(e) = fr {
            return fail("C12.c-must-succeed", format!("fetch of record {} of {} ({}) failed: {}", rid, n, if by_name { "by name" } else { "by number" }, e));
        }
        if let Err(e) = reader.read(&mut buf) {
            return fail("C12.c-must-succeed", format!("read of record {} of {} failed on an intact file: {}", rid, n, e));
        }
        w.set_budget(u64::MAX);
        if buf != want {
            return fail(
                "C12.a-slice",
                format!("record {} of {} fetched {}: read {:?}, model says {:?}", rid, n, if by_name { "by name" } else { "by number" }, show(&buf), show(&want)),
            );
        }
    }
    // a record number just past the end must be refused
    w.clause("C12.d-must-fail");
    if reader.fetch_all_by_rid(n).is_ok() && reader.read(&mut buf).is_ok() {
        return fail("C12.d-must-fail", format!("record number {} of an index with {} records was accepted", n, n));
    }
    Ok(())
}

fn ix_virtual(w: &W) -> Verdict {
    use crate::world::Virtual;
    if w.chance(1, 100) {
        return ix_giant_index(w);
    }
    w.probe("workload_nonempty");
    w.probe("offsets_beyond_4gib");
    w.fired("knob_virtual_huge_file");
    let crlf = w.chance(1, 2);
    let term: &'static [u8] = if crlf { b"\r\n" } else { b"\n" };
    let lb = *w.pick(&[60u64, 70, 1, 61, 511, 512, 513, 8192, 100, 7]);
    let seq_len: u64 = match w.draw(5) {
        0 => (1u64 << 31) + w.draw(200),
        1 => (1u64 << 32) + w.draw(200),
        2 => (1u64 << 33) + w.draw(1000),
        3 => (1u64 << 32) - 1 - w.draw(100),
        _ => (1u64 << 30) + w.draw(1u64 << 35),
    };
    let header = b">v some description\n".to_vec();
    let header = if crlf { b">v some description\r\n".to_vec() } else { header };
    let a = w.draw(20);
    let b = 1 + w.draw(6);
    let mut v = Virtual { header, line_bases: lb, term, seq_len, a, b, visible_len: 0 };
    let total = v.total_len();
    // optional truncation somewhere in the last quarter or near a power of two
    let cut = if w.chance(1, 4) {
        Some(match w.draw(3) {
            0 => total - 1 - w.draw(total / 4),
            1 => ((1u64 << 32) + w.draw(100)).min(total - 1),
            _ => ((1u64 << 31) + w.draw(100)).min(total - 1),
        })
    } else {
        None
    };
    v.visible_len = cut.unwrap_or(total);
    if cut.is_some() {
        w.fired("cut");
    }
    let offset = v.header.len() as u64;
    let fai = format!("v\t{}\t{}\t{}\t{}\n", seq_len, offset, lb, lb + term.len() as u64);
    let v = Rc::new(v);
    let chunk = *w.pick(&CHUNKS);
    let src = SimSeekRead::new_virtual(w, v.clone(), IoCfg { chunk, eintr_pm: 0, eio_pm: 0 }, "fasta");
    let mut reader = match IndexedReader::new(src, fai.as_bytes()) {
        Ok(r) => r,
        Err(e) => return fail("C12.f-index", format!("IndexedReader::new rejected a well-formed .fai: {}", e)),
    };
    if w.keep_trace {
        w.note("virtual_file", json!({"seq_len": seq_len, "line_bases": lb, "crlf": crlf, "total_bytes": total, "visible_bytes": v.visible_len, "fai": fai, "read_regime": chunk.name()}));
    }
    let off_of = |i: u64| offset + (i / lb) * (lb + term.len() as u64) + i % lb;
    // The index promises billions of bases; if the file stops after a few kilobytes, a request for
    // (nearly) all of them must end in an error soon — not in an attempt to make room for them.
    if cut.is_none() && w.chance(1, 6) {
        w.probe("huge_request_on_tiny_truncated_file");
        w.fired("cut");
        // the promised length may even be beyond what a Vec can hold
        let (seq_len, fai) = if lb >= 60 && w.chance(1, 3) {
            let l = (1u64 << 63) + w.draw(1000);
            (l, format!("v\t{}\t{}\t{}\t{}\n", l, offset, lb, lb + term.len() as u64))
        } else {
            (seq_len, fai.clone())
        };
        let tiny = Rc::new(Virtual { header: v.header.clone(), line_bases: lb, term, seq_len, a, b, visible_len: offset + w.draw(5000) });
        let src = SimSeekRead::new_virtual(w, tiny.clone(), IoCfg { chunk, eintr_pm: 0, eio_pm: 0 }, "fasta");
        let mut reader = match IndexedReader::new(src, fai.as_bytes()) {
            Ok(r) => r,
            Err(e) => return fail("C12.f-index", format!("IndexedReader::new rejected a well-formed .fai: {}", e)),
        };
        w.clause("C12.d-must-fail");
        w.set_budget(200_000);
        let (s, e) = match w.draw(3) {
            0 => (0, seq_len),
            1 => (w.draw(100), seq_len - w.draw(100)),
            _ => (w.draw(1000), (1u64 << 33).min(seq_len)),
        };
        let fr = if w.chance(1, 2) && s == 0 && e == seq_len { reader.fetch_all("v") } else { reader.fetch("v", s, e) };
        if fr.is_err() {
            return Ok(()); // refusing at fetch time is an error report too
        }
        if w.chance(1, 2) {
            let mut buf = Vec::new();
            if reader.read(&mut buf).is_ok() {
                return fail("C12.d-must-fail", format!("[{}, {}) of a {}-base record on a file of {} bytes: read() returned Ok with {} bases", s, e, seq_len, tiny.visible_len, buf.len()));
            }
        } else {
            match reader.read_iter() {
                Err(_) => {}
                Ok(it) => {
                    let mut n = 0u64;
                    let mut saw_err = false;
                    for item in it {
                        n += 1;
                        if item.is_err() {
                            saw_err = true;
                        }
                        if n > 20_000 {
                            break;
                        }
                    }
                    if !saw_err {
                        return fail("C12.d-must-fail", format!("[{}, {}) of a {}-base record on a file of {} bytes: the iterator yielded {} items and no error", s, e, seq_len, tiny.visible_len, n));
                    }
                }
            }
        }
        w.set_budget(u64::MAX);
        return Ok(());
    }
    let mut log = vec![];
    let mut steps = 0u64;
    let mut buf = b"STALE".to_vec();
    while steps == 0 || w.more(steps, 8) {
        steps += 1;
        // interval: short, placed where the arithmetic is delicate
        let l = w.small(0, 3000).min(seq_len);
        let anchor = match w.draw(6) {
            0 => 1u64 << 31,
            1 => 1u64 << 32,
            2 => (1u64 << 32) / (lb + term.len() as u64) * lb, // bases whose file offset is near 2^32
            3 => seq_len,
            4 => (1u64 << 31) / (lb + term.len() as u64) * lb,
            _ => w.draw(seq_len + 1),
        };
        let s = anchor.saturating_sub(w.draw(l + 2)).min(seq_len - l.min(seq_len));
        let e = (s + l).min(seq_len);
        let use_iter = w.chance(1, 2);
        let by_rid = w.chance(1, 2);
        w.set_budget(8 * (e - s + 2 * ((e - s) / lb + 2)) + 2000);
        let fr = if by_rid { reader.fetch_by_rid(0, s, e) } else { reader.fetch("v", s, e) };
        if let Err(er) = fr {
            if cut.is_some() {
                continue;
            }
            return fail("C12.c-must-succeed", format!("fetch [{}, {}) of a {}-base record failed: {}", s, e, seq_len, er));
        }
        let need_end = if e > s { off_of(e - 1) + 1 } else { 0 };
        let short = need_end > v.visible_len;
        let mut got: Vec<u8> = vec![];
        let mut err: Option<String> = None;
        if use_iter {
            match reader.read_iter() {
                Err(er) => err = Some(er.to_string()),
                Ok(it) => {
                    for (k, item) in it.enumerate() {
                        match item {
                            Ok(b) => got.push(b),
                            Err(er) => {
                                err = Some(er.to_string());
                            }
                        }
                        if k as u64 > e - s + 8 {
                            return fail("C12.b-iter", format!("iterator for [{}, {}) does not end", s, e));
                        }
                    }
                }
            }
        } else {
            match reader.read(&mut buf) {
                Ok(()) => got = buf.clone(),
                Err(er) => err = Some(er.to_string()),
            }
        }
        w.set_budget(u64::MAX);
        if w.keep_trace {
            log.push(json!({"fetch": [s, e], "api": if use_iter { "read_iter" } else { "read" }, "file_offset_of_start": off_of(s), "got_bytes": got.len(), "error": err}));
            w.note("history", json!(log));
        }
        w.clause("C12.a-slice");
        let clause = if use_iter { "C12.b-iter" } else { "C12.a-slice" };
        // whatever came back Ok must be a prefix of the slice
        for (k, g) in got.iter().enumerate() {
            let want = v.base(s + k as u64);
            if k as u64 >= e - s || *g != want {
                return fail(
                    clause,
                    format!("[{}, {}) of a {}-base record (width {}, {}; file offset of start {}): byte {} is {:?}, model says {:?}", s, e, seq_len, lb, if crlf { "CRLF" } else { "LF" }, off_of(s), k, *g as char, if (k as u64) < e - s { want as char } else { '∅' }),
                );
            }
        }
        match (&err, short) {
            (None, true) => return fail("C12.d-must-fail", format!("[{}, {}) needs file bytes up to {} but the file has {}: no error, {} of {} bases returned", s, e, need_end, v.visible_len, got.len(), e - s)),
            (None, false) if (got.len() as u64) < e - s => return fail(clause, format!("[{}, {}): silently short: {} of {} bases and no error", s, e, got.len(), e - s)),
            (Some(er), false) if cut.is_none() => return fail("C12.c-must-succeed", format!("[{}, {}) of a {}-base record (file offset of start {}) failed on an intact file: {}", s, e, seq_len, off_of(s), er)),
            _ => {}
        }
    }
    Ok(())
}

pub fn property() -> Property {
    Property {
        id: "C12",
        scenarios: vec![
            Scenario { name: "ix-history", weight: 32, run: ix_history },
            Scenario { name: "ix-clean", weight: 8, run: ix_clean },
            Scenario { name: "ix-allpairs", weight: 4, run: ix_allpairs },
            Scenario { name: "ix-partitions", weight: 1, run: ix_partitions },
            Scenario { name: "ix-virtual", weight: 2, run: ix_virtual },
        ],
        panic_clause: "C12.g-nopanic",
        livelock_clause: "C12.g-livelock",
        rule: "one run = one seeded execution: a FASTA file (1-4 records, in rarer regimes up to 300; own line width each, LF or CRLF, with/without final terminator) plus a .fai computed by an independent reference indexer, an IndexedReader over a seekable simulated file, and a history of 1-10 fetch/read/read_iter steps (1 run in 50: up to 60, 300 or 4000; valid and invalid), with read fragmentation regime, per-operation EINTR/EIO rates and an optional truncation offset all drawn from one choice stream; ix-allpairs instead sweeps every (start, stop) pair of one record. Non-trivial = a fault or non-default knob actually fired. Distinct = distinct schedule signature: hash of scenario, truncation class and the sequence of (call kind, requested-size class, outcome class) of every endpoint call. ix-virtual serves one record of up to 2^35 bases from a formula (file offsets beyond 4 GiB). ix-partitions plays every partition of one tiny file into read() chunks for two adjacent fetches; one sweep counts as one run.",
        real: &["bio::io::fasta::{Index::new, Index::sequences, IndexedReader::{new, with_index, fetch, fetch_by_rid, fetch_all, fetch_all_by_rid, read, read_iter}, IndexedReaderIterator}", "std::io::BufReader (fill_buf/consume/seek)", "csv reader (for the .fai)"],
        stubs: &["the seekable file (SimSeekRead: short reads, EINTR, EIO on read and seek)", "the .fai stream (SimRead: short reads)", "samtools faidx (harness reference indexer)", "truncation of the FASTA file after indexing"],
        assumptions: &[
            "the .fai matches the file (offsets, line_bases, line_bytes computed by the harness); a single-line record may be described by its own length or by the nominal width",
            "sequence names contain no white space or tab (a double quote is allowed since /repo 6276305)",
            "after a failed fetch either an error or the exact previously fetched slice is accepted for a following read; from the second read after one fetch on, either the same exact slice or an error is accepted (the property does not say which)",
            "on a truncated file a request whose bytes are all present may either succeed exactly or fail; a request that needs missing bytes must fail",
            "an Err is excused only if EINTR/EIO fired during that same operation, the file is truncated, or the request is invalid",
        ],
        expected_probes: &[
            "read_boundary_before_terminator", "read_boundary_inside_crlf", "line_longer_than_iterator_buffer", "line_longer_than_bufreader",
            "start_on_line_boundary", "stop_on_line_boundary", "empty_interval_read", "iterator_dropped_half_way", "operation_after_dropped_iterator",
            "read_after_failed_read", "iterator_driven_through_adaptors", "request_related_to_previous", "re_read_without_new_fetch", "exact_read_after_failed_operation", "operation_failed_by_injected_fault", "cut_inside_requested_range",
            "cut_after_requested_range", "cut_inside_terminator_after_range", "short_file_reported_as_error", "fetch_rejected_unknown_target",
            "file_without_final_terminator", "empty_record", "fai_rows_not_in_file_order", "magic_size_run", "large_regime", "many_records_regime", "huge_regime", "huge_request_on_tiny_truncated_file", "index_with_more_than_65536_records", "offsets_beyond_4gib", "allpairs_sweep", "all_partitions_sweep",
        ],
        quick_runs: 300_000,
        thorough_runs: 20_000_000,
    }
}
