#!/bin/bash
# Sensitivity of the checks: apply each patch (a change that breaks a property while compiling and,
# with --with-tests, passing the library's own I/O unit tests) to /repo, run the property's quick
# check, require exit 1 + VIOLATION + a replay file that reproduces in a fresh process, and undo.
# Patches whose name starts with "benign-" must leave the check quiet (exit 0).
#
#   tools/sensitivity.sh [--with-tests] [--root DIR] <patch|dir-with-patch.diff>...
#
# Not a MANIFEST command. /repo is restored after every patch (also on interrupt).
set -u
VERIF="${SENS_VERIF:-$(cd "$(dirname "${BASH_SOURCE[0]}")/.." && pwd)}"
# developer lane: SENS_REPO=<scratch worktree> SENS_VERIF=<copy of check + sim whose Cargo.toml points at that worktree>
REPO="${SENS_REPO:-/repo}"
WITH_TESTS=0
OUT="$(mktemp -d)"
ROOT="$OUT/root"; mkdir -p "$ROOT"; cp "$VERIF/known_findings.json" "$ROOT/"
args=()
while [ $# -gt 0 ]; do
  case "$1" in
    --with-tests) WITH_TESTS=1 ;;
    *) args+=("$1") ;;
  esac; shift
done
restore() { git -C "$REPO" checkout -- . 2>/dev/null; git -C "$REPO" clean -fdq -- src tests 2>/dev/null; }
trap 'restore; rm -rf "$OUT"' EXIT
if [ -n "$(git -C "$REPO" status --porcelain --untracked-files=no)" ]; then echo "sensitivity: $REPO has uncommitted changes; refusing" >&2; exit 2; fi
(cd "$VERIF/sim" && cargo build --release --offline >/dev/null 2>&1) || { echo "build failed" >&2; exit 2; }
fails=0
for item in "${args[@]}"; do
  item="$(realpath "$item")"
  if [ -d "$item" ]; then patch="$item/patch.diff"; name="$(basename "$item")"; else patch="$item"; name="$(basename "$item" .patch)"; fi
  prop="$(echo "$name" | grep -oiE 'c1[123]' | head -1 | tr a-z A-Z)"
  [ -f "$item/meta.json" ] && prop="$(jq -r .property "$item/meta.json")"
  if ! git -C "$REPO" apply "$patch" 2>/dev/null; then echo "$name: PATCH DOES NOT APPLY"; fails=$((fails+1)); continue; fi
  tests="-"
  if [ $WITH_TESTS = 1 ]; then
    if (cd "$REPO" && cargo test --offline --lib io:: >"$OUT/test.log" 2>&1); then tests="unit-tests-pass"; else tests="UNIT-TESTS-FAIL"; fi
  fi
  rm -rf "$ROOT/replays"
  if ! (cd "$VERIF/sim" && cargo build --release --offline >"$OUT/build.log" 2>&1); then
    echo "$name: DOES NOT COMPILE"; restore; fails=$((fails+1)); continue
  fi
  # through ./check, so that the address-space cap and the crash isolation apply as they would
  SIMIO_OUT_ROOT="$ROOT" "$VERIF/check" "$prop" quick >"$OUT/run.log" 2>&1; rc=$?
  viol="$(grep -ac '^VIOLATION' "$OUT/run.log")"
  clauses="$(grep -a '^violation:' "$OUT/run.log" | sed -E 's/.*clause=([^ ]+).*/\1/' | sort -u | tr '\n' ' ')"
  replay_ok="-"
  if [ "$viol" -gt 0 ]; then
    f="$(grep -a '^VIOLATION' "$OUT/run.log" | head -1 | sed -E 's/.*replay=//')"
    SIMIO_OUT_ROOT="$ROOT" "$VERIF/check" replay "$f" >"$OUT/replay.log" 2>&1 && replay_ok="REPLAY-DID-NOT-REPRODUCE" || replay_ok="replay-reproduces"
    min="$(jq -c '.minimisation' "$f")"
  else min="-"; fi
  expect_quiet=0
  case "$name" in benign-*) expect_quiet=1 ;; esac
  if [ -f "$item/meta.json" ] && [ "$(jq -r 'if has("breaks_property_as_stated") then .breaks_property_as_stated else true end' "$item/meta.json")" = "false" ]; then expect_quiet=1; fi
  if [ -f "$item/meta.json" ] && [ "$(jq -r '.expected_missed // false' "$item/meta.json")" = "true" ]; then expect_quiet=2; fi
  case "$expect_quiet" in
    2) if [ $rc = 0 ]; then verdict="missed (documented limit of the technique)"; else verdict="caught (beyond expectation)"; fi ;;
    1) if [ $rc = 0 ]; then verdict="quiet (as required)"; else verdict="FALSE ALARM"; fails=$((fails+1)); fi ;;
    *) if [ $rc = 1 ] && [ "$viol" -gt 0 ] && [ "$replay_ok" = "replay-reproduces" ]; then verdict="caught"; else verdict="MISSED"; fails=$((fails+1)); fi ;;
  esac
  echo "$name: property=$prop $verdict rc=$rc clauses=[$clauses] $replay_ok $tests min=$min"
  restore
done
(cd "$VERIF/sim" && cargo build --release --offline >/dev/null 2>&1)
exit $([ $fails = 0 ] && echo 0 || echo 1)
