#!/bin/bash
# Confirm a seeded change produced by a sub-agent, in a scratch worktree (never in /repo):
#   pristine + demo  -> demo passes
#   patch applied    -> full existing suite passes (demo not present)
#   patch + demo     -> demo fails
# usage: tools/confirm_seed.sh <worktree> <dir with patch.diff and demo*.rs> ; prints one line
set -u
WT="$1"; D="$(realpath "$2")"
demo="$(ls "$D"/demo*.rs | head -1)"
cd "$WT" || exit 2
git checkout -q -- . ; rm -f tests/zz_demo_seed.rs
cp "$demo" tests/zz_demo_seed.rs
if cargo test --offline --test zz_demo_seed >"$D/confirm_demo_pristine.log" 2>&1; then a="demo-passes-on-pristine"; else a="DEMO-FAILS-ON-PRISTINE"; fi
rm -f tests/zz_demo_seed.rs
if ! git apply "$D/patch.diff"; then echo "$D: PATCH DOES NOT APPLY"; exit 1; fi
if cargo test --workspace --no-fail-fast --offline >"$D/confirm_suite_with_change.log" 2>&1; then b="suite-passes-with-change"; else b="SUITE-FAILS-WITH-CHANGE"; fi
cp "$demo" tests/zz_demo_seed.rs
if cargo test --offline --test zz_demo_seed >"$D/confirm_demo_with_change.log" 2>&1; then c="DEMO-PASSES-WITH-CHANGE"; else c="demo-fails-with-change"; fi
rm -f tests/zz_demo_seed.rs; git checkout -q -- .
echo "$D: $a $b $c"
